"""Seeded workload programs for the process / file-system simulator (conservative feature subset)."""
from ..pipe import ir

PATHS = ["/a", "/b", "/d/c", "/d/e", "/d/g/h", "/k/l", "/m"]
PADS = [0, 0, 7, 300, 5000, 70000]


def gen_program(rng, nfun=None, big=True, root_kept=False):
    """A root function (plain, evaluated with dds.eval - or, with root_kept, a data function that is called
    directly, so that the evaluation itself has a requested path) plus data functions / kept targets below it."""
    n = nfun or rng.randint(2, 6)
    names = [f"f{i}" for i in range(n)]
    paths = list(PATHS)
    rng.shuffle(paths)
    funcs = {}
    unreferenced = set(names[1:])
    for i, fn in enumerate(names):
        kind = "plain" if i == 0 else rng.choice(["data", "data", "target"])
        f = {"mod": "m0", "kind": kind, "params": [], "ver": 1, "ret": rng.choice(["tuple", "tuple", "str", "bytes"]),
             "pad": rng.choice(PADS if big else PADS[:4]), "body": [], "comment": 0, "end": False}
        if i == 0:
            f["ret"] = "tuple"
            f["pad"] = 0
            if root_kept:
                f["kind"] = "data"
                f["path"] = "/top/out"
        if kind == "data":
            f["path"] = paths.pop()
        if kind == "target":
            f["params"] = [["a", ir.NODEFAULT]]
            f["keep_path"] = paths.pop()
        funcs[fn] = f
    # wire: every function j>0 is referenced by some i<j (its first reference), plus optional sharing
    for j in range(1, n):
        i = rng.randrange(0, j)
        _add_ref(funcs, names[i], names[j], rng)
        unreferenced.discard(names[j])
        if rng.random() < 0.3 and funcs[names[j]]["kind"] == "data":
            i2 = rng.randrange(0, j)
            if i2 != i:
                _add_ref(funcs, names[i2], names[j], rng)
    prog = {"pkg": ["pk"], "accept": 1, "decoys": 0, "mods": ["m0"], "vars": {}, "funcs": funcs,
            "order": list(reversed(names)), "extra": {}, "ext": {"EXTV": 1, "ext_ver": 1}}
    for f in funcs.values():
        f.pop("keep_path", None)
    return prog


def add_reader(prog, rng):
    """Adds a second entry point `fr`: a data function that dds.load()s one of the producer's paths (it does not
    produce that path itself)."""
    ps = kept_paths(prog)
    p = rng.choice(ps)
    prog["funcs"]["fr"] = {"mod": "m0", "kind": "data", "params": [], "ver": 1, "ret": "tuple", "pad": 0,
                           "path": "/rd/out", "body": [{"t": "load", "path": p}], "comment": 0, "end": False}
    prog["order"].append("fr")
    return p


def _add_ref(funcs, caller, callee, rng):
    g = funcs[callee]
    if g["kind"] == "data":
        funcs[caller]["body"].append({"t": "call", "f": callee, "form": "direct"})
    else:
        funcs[caller]["body"].append({"t": "keep", "path": g["keep_path"], "f": callee,
                                      "args": [{"k": "lit", "v": rng.choice([0, 1, 7, "s"])}]})


def kept_paths(prog):
    out = []
    for fn, f in prog["funcs"].items():
        if f["kind"] == "data":
            out.append(f["path"])
        for it in f["body"]:
            if it["t"] == "keep":
                out.append(it["path"])
    return sorted(set(out))
