"""Child-side seam: every file-system call on a path under the gated root becomes a scheduling / crash point.

Installed in a simulated process (a forked child). Nothing in /repo is modified: os.*, builtins.open, io.open,
time.*, os.getpid, os.urandom, random and tempfile naming are monkeypatched in this process only.
"""
import builtins
import io
import os
import pickle
import random
import struct
import sys
import tempfile
import time

_real = {}


class Channel:
    """Length-prefixed pickle messages over two pipes."""

    def __init__(self, rfd, wfd):
        self.rfd, self.wfd = rfd, wfd

    def send(self, msg):
        data = pickle.dumps(msg, protocol=4)
        data = struct.pack("!I", len(data)) + data
        mv = memoryview(data)
        while mv:
            n = _real_write(self.wfd, mv)
            mv = mv[n:]

    def recv(self):
        hdr = self._readn(4)
        if hdr is None:
            return None
        (n,) = struct.unpack("!I", hdr)
        body = self._readn(n)
        if body is None:
            return None
        return pickle.loads(body)

    def _readn(self, n):
        chunks = []
        while n:
            b = _real_read(self.rfd, n)
            if not b:
                return None
            chunks.append(b)
            n -= len(b)
        return b"".join(chunks)


_real_write = os.write
_real_read = os.read


class Seam:
    def __init__(self, chan, gate_root, proc_id, seed_hex, incarnation=0):
        self.chan = chan
        self.root = os.path.realpath(gate_root)
        self.proc_id = proc_id
        self.inc = incarnation
        self.wall = 1_700_000_000.0
        self.mono = 1000.0
        self.fd_paths = {}
        self.enabled = True
        self.seed_hex = seed_hex
        self.ngates = 0

    # ---- classification -------------------------------------------------------------------
    def rel(self, path):
        """Returns the path relative to the gated root ('$R/...') or None if outside."""
        try:
            p = os.fspath(path)
        except TypeError:
            return None
        if isinstance(p, bytes):
            p = os.fsdecode(p)
        if not os.path.isabs(p):
            p = os.path.join(_real["getcwd"](), p)
        p = os.path.normpath(p)
        if p == self.root or p.startswith(self.root + "/"):
            return "$R" + p[len(self.root):]
        return None

    def gate(self, op, *args):
        """Parks this process until the scheduler releases it (or kills it)."""
        if not self.enabled:
            return
        self.ngates += 1
        self.chan.send(("gate", op, args))
        msg = self.chan.recv()
        if msg is None:
            os._exit(97)
        self.wall, self.mono = msg[1], msg[2]

    def event(self, kind, payload):
        self.chan.send(("event", kind, payload))

    def rebind(self, chan, proc_id, incarnation):
        """Called in a process forked from a simulated process (fork-after-use, e.g. multiprocessing workers): the
        memory image is the parent's, but the process is a new incarnation - new pid, and the kernel's random
        source is not part of the copied state (the state of the `random` module is, as on a real machine)."""
        self.chan = chan
        self.proc_id = proc_id
        self.inc = incarnation
        self.ngates = 0
        self.rnd = random.Random(int(self.seed_hex[:16], 16) ^ (self.inc * 7919))

    def real_pid(self):
        return _real["getpid"]()

    # ---- installation ---------------------------------------------------------------------
    def install(self):
        s = self
        for name in ("stat", "lstat", "mkdir", "remove", "unlink", "symlink", "readlink", "rename", "replace",
                     "rmdir", "listdir", "scandir", "link", "open", "close", "fsync", "getcwd", "getpid",
                     "urandom", "chmod", "utime", "truncate", "access", "fdopen"):
            _real[name] = getattr(os, name)
        _real["builtin_open"] = builtins.open
        _real["io_open"] = io.open
        _real["time"] = time.time
        _real["monotonic"] = time.monotonic
        _real["sleep"] = time.sleep

        def path_op(name, gate_name=None, two=False):
            real = _real[name]
            gname = gate_name or name

            def wrapper(path, *a, **kw):
                r = s.rel(path) if not isinstance(path, int) else None
                if two:
                    r2 = s.rel(a[0]) if a else None
                    if r is not None or r2 is not None:
                        s.gate(gname, r or str(path), r2 or (str(a[0]) if a else None))
                elif r is not None:
                    s.gate(gname, r)
                return real(path, *a, **kw)

            wrapper.__name__ = name
            return wrapper

        for name in ("stat", "lstat", "mkdir", "remove", "unlink", "readlink", "rmdir", "listdir", "scandir",
                     "chmod", "utime", "truncate", "access"):
            setattr(os, name, path_op(name))
        os.rename = path_op("rename", two=True)
        os.replace = path_op("replace", gate_name="rename", two=True)
        os.link = path_op("link", two=True)

        def symlink(src, dst, *a, **kw):
            r = s.rel(dst)
            if r is not None:
                s.gate("symlink", r, s.rel(src) or str(src))
            return _real["symlink"](src, dst, *a, **kw)

        os.symlink = symlink

        def os_open(path, flags, mode=0o777, *a, **kw):
            r = s.rel(path)
            if r is not None:
                s.gate("os.open", r, flags & (os.O_CREAT | os.O_EXCL | os.O_TRUNC | os.O_WRONLY | os.O_RDWR))
            fd = _real["open"](path, flags, mode, *a, **kw)
            if r is not None:
                s.fd_paths[fd] = r
            return fd

        os.open = os_open

        def os_close(fd):
            r = s.fd_paths.pop(fd, None)
            if r is not None:
                s.gate("close", r)
            return _real["close"](fd)

        os.close = os_close

        def os_fsync(fd):
            r = s.fd_paths.get(fd)
            if r is not None:
                s.gate("fsync", r)
            return _real["fsync"](fd)

        os.fsync = os_fsync

        def os_write(fd, data):
            r = s.fd_paths.get(fd)
            if r is not None:
                s.gate("write", r, 0, 0)
            return _real_write(fd, data)

        os.write = os_write
        os.getpid = lambda: 1000 + s.inc
        s.rnd = random.Random(int(s.seed_hex[:16], 16) ^ (s.inc * 7919))
        os.urandom = lambda n: bytes(s.rnd.getrandbits(8) for _ in range(n))
        random.seed(int(s.seed_hex[16:32], 16) ^ (s.inc * 104729))

        class Names:
            def __init__(self):
                self.n = 0

            def __iter__(self):
                return self

            def __next__(self):
                self.n += 1
                return f"p{s.inc}n{self.n}"

        tempfile._name_sequence = Names()
        tempfile._get_candidate_names = lambda: tempfile._name_sequence

        def gated_open(file, mode="r", buffering=-1, encoding=None, errors=None, newline=None, closefd=True,
                       opener=None):
            if isinstance(file, int):
                r = s.fd_paths.get(file)
                if r is None:
                    return _real["io_open"](file, mode, buffering, encoding, errors, newline, closefd, opener)
                raw = GateWriter(s, r, fd=file) if any(c in mode for c in "wax+") else GateReader(s, r, fd=file)
                s.fd_paths.pop(file, None)  # the proxy owns the fd now
            else:
                r = s.rel(file)
                if r is None:
                    return _real["io_open"](file, mode, buffering, encoding, errors, newline, closefd, opener)
                if any(c in mode for c in "wax+"):
                    flags = os.O_WRONLY | os.O_CREAT
                    if "+" in mode:
                        flags = os.O_RDWR | os.O_CREAT
                    if "w" in mode:
                        flags |= os.O_TRUNC
                    if "x" in mode:
                        flags |= os.O_EXCL
                    if "a" in mode:
                        flags |= os.O_APPEND
                    s.gate("open_w", r, mode.replace("b", ""))
                    fd = _real["open"](os.fspath(file), flags, 0o666)
                    raw = GateWriter(s, r, fd=fd)
                else:
                    s.gate("open_r", r)
                    fd = _real["open"](os.fspath(file), os.O_RDONLY)
                    raw = GateReader(s, r, fd=fd)
            raw.name = file
            raw.mode = mode
            if "b" in mode:
                if isinstance(raw, GateWriter):
                    return io.BufferedWriter(raw, buffer_size=1 << 16)
                return io.BufferedReader(raw, buffer_size=1 << 16)
            buf = io.BufferedWriter(raw, 1 << 16) if isinstance(raw, GateWriter) else io.BufferedReader(raw, 1 << 16)
            return io.TextIOWrapper(buf, encoding=encoding or "utf-8", errors=errors, newline=newline)

        builtins.open = gated_open
        io.open = gated_open
        os.fdopen = lambda fd, mode="r", buffering=-1, encoding=None, *a, **kw: gated_open(
            fd, mode, buffering, encoding, *a, **kw)

        time.time = lambda: s.wall
        time.monotonic = lambda: s.mono
        time.time_ns = lambda: int(s.wall * 1e9)

        def sleep(d):
            s.gate("sleep", round(float(d), 6))

        time.sleep = sleep


class GateWriter(io.RawIOBase):
    """Models CPython's userspace buffering: data reaches the file at flush/close, in two halves, each a gate."""

    def __init__(self, seam, rel, fd):
        super().__init__()
        self.s, self.rel, self.fd = seam, rel, fd
        self.buf = []

    def writable(self):
        return True

    def fileno(self):
        return self.fd

    def write(self, b):
        b = bytes(b)
        self.buf.append(b)
        return len(b)

    def _drain(self):
        data = b"".join(self.buf)
        self.buf = []
        if not data:
            return
        if len(data) == 1:
            parts = [data]
        else:
            h = len(data) // 2
            parts = [data[:h], data[h:]]
        for i, p in enumerate(parts):
            self.s.gate("write", self.rel, i + 1, len(parts))
            mv = memoryview(p)
            while mv:
                n = _real_write(self.fd, mv)
                mv = mv[n:]

    def flush(self):
        if not self.closed and self.buf:
            self._drain()

    def close(self):
        if self.closed:
            return
        try:
            self._drain()
            self.s.gate("close", self.rel)
            _real["close"](self.fd)
        finally:
            super().close()


class GateReader(io.RawIOBase):
    def __init__(self, seam, rel, fd):
        super().__init__()
        self.s, self.rel, self.fd = seam, rel, fd

    def readable(self):
        return True

    def fileno(self):
        return self.fd

    def readinto(self, b):
        self.s.gate("read", self.rel)
        data = _real_read(self.fd, len(b))
        b[: len(data)] = data
        return len(data)

    def readall(self):
        self.s.gate("read", self.rel)
        chunks = []
        while True:
            d = _real_read(self.fd, 1 << 20)
            if not d:
                break
            chunks.append(d)
        return b"".join(chunks)

    def close(self):
        if self.closed:
            return
        try:
            _real["close"](self.fd)
        finally:
            super().close()
