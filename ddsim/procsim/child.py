"""Code executed inside a simulated process (forked child of the worker/zygote)."""
import importlib
import os
import sys
import traceback

from ..core.util import ensure_repo_on_path, quiet_process
from ..storesim.values import canon
from .seam import Channel, Seam


def outcome_of(fn):
    try:
        return ["ok", canon(fn())]
    except BaseException as e:  # noqa
        code = getattr(e, "error_code", None)
        return ["exc", type(e).__name__, getattr(code, "name", None), str(e)[:300]]


def run_op(op, state):
    import dds

    k = op["op"]
    if k == "set_store":
        kw = {}
        if op.get("cache") is not None:
            kw["cache_objects"] = op["cache"]
        dds.set_store("local", internal_dir=op["internal"], data_dir=op["data"], **kw)
        return None
    if k == "import":
        if op["srcdir"] not in sys.path:
            sys.path.insert(1, op["srcdir"])
        for a in op["accept"]:
            dds.accept_module(a)
        for m in op["modules"]:
            importlib.import_module(m)
        return None
    if k == "chdir":
        os.chdir(op["dir"])
        return None
    if k == "noop":
        return None
    if k in ("eval", "call", "keep"):
        modn, fn = op["entry"].split(":")
        f = getattr(importlib.import_module(modn), fn)
        if k == "eval":
            return dds.eval(f, *op.get("args", []))
        if k == "call":
            return f(*op.get("args", []))
        return dds.keep(op["path"], f, *op.get("args", []))
    if k == "load":
        return dds.load(op["path"])
    raise ValueError(op)


def _run_job(seam, job, state):
    seam.gate("start")
    for i, op in enumerate(job):
        if op.get("invoke_gate", True):
            seam.gate("invoke", i)
        seam.event("invoke", i)
        out = outcome_of(lambda: run_op(op, state))
        log = None
        if "simutil" in sys.modules:
            log = list(sys.modules["simutil"].LOG)
            del sys.modules["simutil"].LOG[:]
        seam.event("ret", [i, out, log])
        if op["op"] == "set_store" and out[0] != "ok":
            # without its store the process must not go on (dds would silently fall back to its default store, a fixed
            # directory shared by every run): the remaining operations fail with the same error
            for j in range(i + 1, len(job)):
                seam.event("invoke", j)
                seam.event("ret", [j, out, None])
            return


def child_main(rfd, wfd, proc_id, job, gate_root, seed_hex, incarnation=0, worker_pipes=None):
    """Never returns. With worker_pipes (child ends of pipe pairs created by the scheduler) the process stays alive
    after its job as a template: on request it forks workers that inherit its whole memory image (imported modules,
    configured store, every cache of dds) and run their own job under the scheduler."""
    code = 0
    cur = (rfd, wfd)
    try:
        quiet_process()
        ensure_repo_on_path()
        chan = Channel(rfd, wfd)
        seam = Seam(chan, gate_root, proc_id, seed_hex, incarnation)
        seam.install()
        state = {}
        _run_job(seam, job, state)
        if worker_pipes:
            import signal

            signal.signal(signal.SIGCHLD, signal.SIG_IGN)    # workers are reaped by the kernel
            chan.send(("forkserver",))
            while True:
                msg = chan.recv()
                if msg is None or msg[0] == "exit":
                    break
                _, slot, wid, winc, wjob = msg
                pid = os.fork()
                if pid == 0:
                    for k, (r, w) in enumerate(worker_pipes):
                        if k != slot:
                            os.close(r)
                            os.close(w)
                    os.close(rfd)
                    os.close(wfd)
                    cur = worker_pipes[slot]
                    wchan = Channel(*cur)
                    seam.rebind(wchan, wid, winc)
                    wchan.send(("hello", seam.real_pid()))
                    _run_job(seam, wjob, state)
                    wchan.send(("done",))
                    os._exit(0)
        chan.send(("done",))
    except BaseException:  # noqa
        try:
            Channel(*cur).send(("crash", traceback.format_exc()[-3000:]))
        except BaseException:  # noqa
            pass
        code = 98
    finally:
        os._exit(code)
