"""Parent-side process simulator: forks simulated processes, releases exactly one parked process per step,
injects kills / stalls / clock faults, records the global event sequence."""
import os
import select
import signal
import time

from ..core.util import HarnessError
from .child import child_main
from .seam import Channel

WATCHDOG_S = 30.0


_incarnations = [0]


class Proc:
    def __init__(self, proc_id, job, gate_root, seed_hex, nworkers=0, template=None):
        self.id = proc_id
        self.job = job
        self.foreign_pid = None
        # every simulated process of a run is a new incarnation: its pid and its random stream (uuid4, temporary
        # names) differ from those of every earlier process, as they would on a real machine - deterministically
        _incarnations[0] += 1
        inc = _incarnations[0]
        if template is not None:
            # forked from a live simulated process (it inherits that process's memory image)
            slot = template.next_slot
            template.next_slot += 1
            c2p_r, p2c_w = template.worker_ends[slot]
            template.chan.send(("fork", slot, proc_id, inc, job))
            self.pid = None
            self.chan = Channel(c2p_r, p2c_w)
        else:
            p2c_r, p2c_w = os.pipe()
            c2p_r, c2p_w = os.pipe()
            child_ends, self.worker_ends = [], []
            for _ in range(nworkers):
                w_p2c_r, w_p2c_w = os.pipe()
                w_c2p_r, w_c2p_w = os.pipe()
                child_ends.append((w_p2c_r, w_c2p_w))
                self.worker_ends.append((w_c2p_r, w_p2c_w))
            self.next_slot = 0
            pid = os.fork()
            if pid == 0:
                os.close(p2c_w)
                os.close(c2p_r)
                for (r, w) in self.worker_ends:
                    os.close(r)
                    os.close(w)
                child_main(p2c_r, c2p_w, proc_id, job, gate_root, seed_hex, inc, child_ends)
            os.close(p2c_r)
            os.close(c2p_w)
            for (r, w) in child_ends:
                os.close(r)
                os.close(w)
            self.pid = pid
            self.chan = Channel(c2p_r, p2c_w)
        self.state = "running"   # running | parked | done | killed | crashed | forkserver
        self.parked_at = None
        self.ngates = 0
        self.results = {}        # op index -> outcome
        self.logs = {}
        self.skew = 0.0

    def _recv(self):
        rl, _, _ = select.select([self.chan.rfd], [], [], WATCHDOG_S)
        if not rl:
            self.kill()
            raise HarnessError(f"simulated process {self.id} made no progress for {WATCHDOG_S}s (parked_at={self.parked_at})")
        return self.chan.recv()

    def kill(self):
        if self.state in ("done", "killed", "crashed") and self.pid is None:
            return
        if self.foreign_pid is not None:
            # a worker forked by a template: not our child (the template ignores SIGCHLD, the kernel reaps it)
            try:
                os.kill(self.foreign_pid, signal.SIGKILL)
            except ProcessLookupError:
                pass
            t0 = time.time()
            while time.time() - t0 < 5.0:
                try:
                    os.kill(self.foreign_pid, 0)
                except ProcessLookupError:
                    break
                try:
                    with open(f"/proc/{self.foreign_pid}/stat") as f:
                        if f.read().rsplit(")", 1)[1].split()[0] == "Z":
                            break
                except OSError:
                    break
                time.sleep(0.001)
            self.foreign_pid = None
        if self.pid is not None:
            try:
                os.kill(self.pid, signal.SIGKILL)
            except ProcessLookupError:
                pass
            os.waitpid(self.pid, 0)
            self.pid = None
        for fd in (self.chan.rfd, self.chan.wfd):
            try:
                os.close(fd)
            except OSError:
                pass
        self._close_unused()
        if self.state not in ("done", "crashed"):
            self.state = "killed"

    def _close_unused(self):
        for (r, w) in getattr(self, "worker_ends", [])[getattr(self, "next_slot", 0):]:
            for fd in (r, w):
                try:
                    os.close(fd)
                except OSError:
                    pass
        self.worker_ends = []

    def reap(self):
        self._close_unused()
        if self.pid is not None:
            os.waitpid(self.pid, 0)
            self.pid = None
        for fd in (self.chan.rfd, self.chan.wfd):
            try:
                os.close(fd)
            except OSError:
                pass


class Sim:
    """One simulated run. `on_event(proc, kind, payload, seq)` is called for invoke/ret events."""

    def __init__(self, gate_root, seed_hex, clock_step=0.01):
        self.gate_root = gate_root
        self.seed_hex = seed_hex
        self.procs = []
        self.templates = []
        self.seq = 0
        self.trace = []          # (seq, proc id, op, args) for every released gate and every event
        self.wall = 1_700_000_000.0
        self.mono = 1000.0
        self.clock_step = clock_step
        self.sim_time = 0.0
        self.faults = {}

    def spawn(self, job):
        p = Proc(len(self.procs), job, self.gate_root, self.seed_hex)
        self.procs.append(p)
        self._run_until_parked(p)   # parks at the "start" gate
        return p

    def spawn_template(self, job, nworkers):
        """A process that, after its own job, stays alive and forks workers on request (ids from 100: it is not one
        of the interleaved processes)."""
        t = Proc(100 + len(self.templates), job, self.gate_root, self.seed_hex, nworkers=nworkers)
        self.templates.append(t)
        self._run_until_parked(t)
        return t

    def fork_from(self, template, job):
        assert template.state == "forkserver", template.state
        p = Proc(len(self.procs), job, self.gate_root, self.seed_hex, template=template)
        self.procs.append(p)
        self._run_until_parked(p)
        return p

    def _note_fault(self, k):
        self.faults[k] = self.faults.get(k, 0) + 1

    def _run_until_parked(self, p):
        while True:
            msg = p._recv()
            if msg is None:
                p.state = "crashed"
                p.reap()
                raise HarnessError(f"simulated process {p.id} died unexpectedly at {p.parked_at}")
            kind = msg[0]
            if kind == "gate":
                p.state = "parked"
                p.parked_at = (msg[1], list(msg[2]))
                p.ngates += 1
                return
            if kind == "event":
                self.seq += 1
                ek, payload = msg[1], msg[2]
                if ek == "ret":
                    i, out, log = payload
                    p.results[i] = out
                    p.logs[i] = log
                    self.trace.append([self.seq, p.id, "ret", i, out])
                else:
                    self.trace.append([self.seq, p.id, ek, payload])
                continue
            if kind == "hello":
                p.foreign_pid = msg[1]
                continue
            if kind == "forkserver":
                p.state = "forkserver"
                return
            if kind == "done":
                p.foreign_pid = None
                p.state = "done"
                p.reap()
                return
            if kind == "crash":
                p.state = "crashed"
                p.reap()
                raise HarnessError(f"simulated process {p.id} harness crash: {msg[1]}")
            raise HarnessError(f"bad message {msg!r}")

    def step(self, p):
        """Releases p: it executes the operation it is parked at and runs to its next gate."""
        assert p.state == "parked", p.state
        self.seq += 1
        self.wall += self.clock_step
        self.mono += self.clock_step
        self.sim_time += self.clock_step
        self.trace.append([self.seq, p.id, p.parked_at[0]] + p.parked_at[1])
        p.chan.send(("go", self.wall + p.skew, self.mono))
        p.state = "running"
        self._run_until_parked(p)

    def clock_jump(self, delta):
        self.wall += delta
        self._note_fault("clock_jump")

    def kill(self, p):
        self.seq += 1
        self.trace.append([self.seq, p.id, "KILL", p.parked_at[0] if p.parked_at else None] +
                          (p.parked_at[1] if p.parked_at else []))
        p.kill()
        self._note_fault("kill")

    def parked(self):
        return [p for p in self.procs if p.state == "parked"]

    def run_alone(self, p, max_steps=20000, kill_at=None):
        """Runs a single process to completion (or kills it when it is parked at gate number kill_at).
        Gate numbers count from 0 = the start gate."""
        n = 0
        while p.state == "parked":
            if kill_at is not None and p.ngates - 1 == kill_at:
                self.kill(p)
                return n
            if n >= max_steps:
                self.kill(p)
                return -1
            self.step(p)
            n += 1
        return n

    def close(self):
        for p in reversed(self.procs):
            if p.state in ("parked", "running"):
                p.kill()
        for t in self.templates:
            if t.state in ("parked", "running", "forkserver"):
                t.kill()
