"""Small shared helpers: seeds, forked execution with watchdog, canonical JSON, scratch dirs."""
import hashlib
import json
import os
import pickle
import random
import select
import shutil
import signal
import sys
import time
import traceback

VERIF_ROOT = os.path.dirname(os.path.dirname(os.path.dirname(os.path.abspath(__file__))))
REPO = os.environ.get("DDS_VERIF_REPO", "/repo")


class HarnessError(Exception):
    """Raised for failures of the machinery itself (never reported as a property violation)."""


class DiscardCase(Exception):
    """The generator produced a case that is not a valid program of the supported subset (e.g. it does not import
    under plain Python): the case is discarded and counted, it says nothing about dds."""


def sha(*parts) -> str:
    h = hashlib.sha256()
    for p in parts:
        if not isinstance(p, bytes):
            p = str(p).encode("utf-8")
        h.update(p)
        h.update(b"\x00")
    return h.hexdigest()


def cjson(obj) -> str:
    return json.dumps(obj, sort_keys=True, separators=(",", ":"), default=_default)


def _default(o):
    if isinstance(o, (set, frozenset)):
        return sorted(o)
    if isinstance(o, bytes):
        return {"__bytes__": o.hex()}
    if isinstance(o, tuple):
        return list(o)
    raise TypeError(f"not json: {type(o)}")


def run_seed(batch_seed: int, prop: str, index: int) -> str:
    return sha("ddsim", batch_seed, prop, index)


class Streams:
    """One independent PRNG per purpose, all derived from the run seed."""

    def __init__(self, seed_hex: str):
        self.seed_hex = seed_hex
        self._streams = {}

    def get(self, label: str) -> random.Random:
        if label not in self._streams:
            self._streams[label] = random.Random(int(sha(self.seed_hex, label), 16))
        return self._streams[label]


_scratch_base = None


def scratch_base() -> str:
    global _scratch_base
    if _scratch_base is None:
        base = "/dev/shm" if os.path.isdir("/dev/shm") and os.access("/dev/shm", os.W_OK) else None
        if base is None:
            import tempfile

            base = tempfile.gettempdir()
        _scratch_base = os.path.join(base, "ddsim")
        os.makedirs(_scratch_base, exist_ok=True)
    return _scratch_base


def new_scratch(tag: str) -> str:
    """A fresh scratch dir unique to (pid, tag). Caller removes it."""
    d = os.path.join(scratch_base(), f"{os.getpid()}-{tag}")
    shutil.rmtree(d, ignore_errors=True)
    os.makedirs(d)
    return d


def rmtree(d: str) -> None:
    shutil.rmtree(d, ignore_errors=True)


def fork_call(fn, args=(), timeout=60.0):
    """Runs fn(*args) in a forked child, returns its (picklable) result.

    Raises HarnessError on timeout or child death. The child never returns into the caller's stack.
    """
    r, w = os.pipe()
    sys.stdout.flush()
    sys.stderr.flush()
    pid = os.fork()
    if pid == 0:
        code = 0
        try:
            os.close(r)
            try:
                import gc

                gc.freeze()  # objects inherited from the zygote are never collected: keeps gc.collect() cheap
                res = ("ok", fn(*args))
            except BaseException as e:  # noqa
                res = ("exc", f"{type(e).__name__}: {e}\n{traceback.format_exc()}")
            data = pickle.dumps(res)
            with os.fdopen(w, "wb") as f:
                f.write(data)
        except BaseException:  # noqa
            code = 3
        finally:
            os._exit(code)
    os.close(w)
    chunks = []
    deadline = time.monotonic() + timeout
    timed_out = False
    try:
        while True:
            left = deadline - time.monotonic()
            if left <= 0:
                timed_out = True
                break
            rl, _, _ = select.select([r], [], [], left)
            if not rl:
                timed_out = True
                break
            b = os.read(r, 1 << 20)
            if not b:
                break
            chunks.append(b)
    finally:
        os.close(r)
        if timed_out:
            try:
                os.kill(pid, signal.SIGKILL)
            except ProcessLookupError:
                pass
        _, status = os.waitpid(pid, 0)
    if timed_out:
        raise HarnessError(f"fork_call timeout after {timeout}s in {getattr(fn, '__name__', fn)}")
    if not chunks:
        raise HarnessError(f"fork_call child died without result (status {status})")
    kind, val = pickle.loads(b"".join(chunks))
    if kind == "exc":
        if val.startswith("DiscardCase:"):
            raise DiscardCase(val.split("\n")[0])
        raise HarnessError("child raised: " + val)
    return val


def quiet_process():
    """Settings applied in every simulated process."""
    import logging
    import warnings

    sys.dont_write_bytecode = True
    logging.disable(logging.CRITICAL)
    warnings.simplefilter("ignore")


def ensure_repo_on_path():
    repo = REPO
    if sys.path[0] != repo:
        if repo in sys.path:
            sys.path.remove(repo)
        sys.path.insert(0, repo)
