"""Generic shrinking helpers (deterministic, no PRNG)."""
import copy


def list_removals(lst, min_len=0):
    """Yields copies of lst with chunks removed: halves first, then smaller chunks, then single items."""
    n = len(lst)
    if n <= min_len:
        return
    size = n
    seen = set()
    while size >= 1:
        size = max(1, size // 2) if size > 1 else 0
        if size == 0:
            break
        for start in range(0, n, size):
            cand = lst[:start] + lst[start + size:]
            if len(cand) < min_len:
                continue
            k = (start, size)
            if k in seen:
                continue
            seen.add(k)
            yield cand
        if size == 1:
            break


def with_key(case, key, value):
    c = copy.deepcopy(case)
    c[key] = value
    return c
