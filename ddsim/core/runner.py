"""Generic check driver: seeded batch of simulated runs, minimisation, replay files, known findings, evidence.

A property module (ddsim.props.cNN) provides:
  PROP, LEVEL, RULE, COMPONENTS, ASSUMPTIONS, DESIGN_REF
  gen_case(streams, tier, avoid) -> case (JSON-serialisable, fully explicit: no PRNG is consulted on replay)
  run_case(case) -> {"violations": [{"oracle":..., "detail":...}], "probes": {...}, "faults": {...},
                     "nontrivial": bool, "key": str, "log": [...], "sim_time": float, "steps": int}
  shrink(case) -> iterable of simpler candidate cases
  tags(case) -> list of feature strings (attribution to known findings)
"""
import argparse
import concurrent.futures as cf
import importlib
import json
import multiprocessing
import os
import subprocess
import sys
import time
import traceback

from . import findings as findings_mod
from .util import (
    DiscardCase,
    HarnessError,
    Streams,
    VERIF_ROOT,
    cjson,
    fork_call,
    run_seed,
    sha,
)

RUN_TIMEOUT_S = float(os.environ.get("VERIF_RUN_TIMEOUT_S", "120"))


def _load(prop: str):
    return importlib.import_module(f"ddsim.props.{prop.lower()}")


def _exec_case(prop: str, case: dict) -> dict:
    mod = _load(prop)
    res = mod.run_case(case)
    res.setdefault("violations", [])
    res.setdefault("probes", {})
    res.setdefault("faults", {})
    res.setdefault("nontrivial", True)
    res.setdefault("log", [])
    res.setdefault("sim_time", 0.0)
    res.setdefault("steps", 0)
    res["digest"] = sha(cjson(res["log"]))
    res.setdefault("key", res["digest"])
    return res


def exec_case_forked(prop: str, case: dict, timeout: float = RUN_TIMEOUT_S) -> dict:
    return fork_call(_exec_case, (prop, case), timeout=timeout)


def gen_case(prop: str, batch_seed: int, index: int, tier: str, avoid) -> dict:
    mod = _load(prop)
    seed_hex = run_seed(batch_seed, prop, index)
    case = mod.gen_case(Streams(seed_hex), tier, avoid)
    case["_seed"] = {"batch": batch_seed, "index": index, "run_seed": seed_hex, "tier": tier}
    return case


def _run_one(prop, batch_seed, index, tier, avoid, want_sample, want_log=False):
    case = gen_case(prop, batch_seed, index, tier, avoid)
    res = _exec_case(prop, case)
    out = {
        "i": index,
        "digest": res["digest"],
        "key": res["key"],
        "violations": res["violations"],
        "probes": res["probes"],
        "faults": res["faults"],
        "nontrivial": bool(res["nontrivial"]),
        "sim_time": res["sim_time"],
        "steps": res["steps"],
        "keys": res.get("keys"),
        "units": res.get("units", 1),
        "tags": sorted(_load(prop).tags(case)) if res["violations"] else [],
    }
    for v in out["violations"]:
        v["alltags"] = sorted(set(out["tags"]) | set(v.get("tags", [])))
    if want_sample:
        mod = _load(prop)
        if hasattr(mod, "sample"):
            out["sample"] = mod.sample(case, res)
        else:
            out["sample"] = {"case": case, "log_tail": res["log"][-12:]}
    if want_log:
        out["log"] = res["log"]
    return out


_preloaded = False


def preload(prop):
    """The pool worker is the zygote of all simulated processes: it imports dds (never uses it)."""
    global _preloaded
    if _preloaded:
        return
    from .util import ensure_repo_on_path

    ensure_repo_on_path()
    sys.dont_write_bytecode = True
    import dds  # noqa
    import dds._plotting  # noqa
    import dds.codecs.databricks  # noqa
    try:
        import IPython  # noqa
        from IPython.core.interactiveshell import InteractiveShell  # noqa
    except ImportError:
        pass
    for m in getattr(_load(prop), "PRELOAD", []):
        importlib.import_module(m)
    if hasattr(_load(prop), "preload_worker"):
        _load(prop).preload_worker()
    _preloaded = True


def run_chunk(prop, batch_seed, indices, tier, avoid, sample_upto):
    """Executed in a pool worker: each run in its own forked process."""
    preload(prop)
    out = []
    for i in indices:
        try:
            r = fork_call(
                _run_one, (prop, batch_seed, i, tier, avoid, i < sample_upto), timeout=RUN_TIMEOUT_S
            )
        except DiscardCase as e:
            r = {"i": i, "discarded": str(e)[:500]}
        except HarnessError as e:
            r = {"i": i, "harness_error": str(e)[:4000]}
        out.append(r)
    return out


# ---------------------------------------------------------------------------------------------
# minimisation


def _fails_same(prop, cand, oracle):
    try:
        res = exec_case_forked(prop, cand)
    except (HarnessError, DiscardCase):
        return None
    for v in res["violations"]:
        if v["oracle"] == oracle:
            return v
    return None


def minimise(prop, case, oracle, budget=300, deadline=None, log=None):
    mod = _load(prop)
    cur = case
    spent = 0
    progress = True
    while progress and spent < budget:
        progress = False
        for cand in mod.shrink(cur):
            if spent >= budget or (deadline and time.monotonic() > deadline):
                return cur, spent
            spent += 1
            if _fails_same(prop, cand, oracle) is not None:
                cur = cand
                progress = True
                break
    return cur, spent


# ---------------------------------------------------------------------------------------------


def write_replay(prop, case, violation, tags, name):
    d = os.path.join(VERIF_ROOT, "out", "replays")
    os.makedirs(d, exist_ok=True)
    path = os.path.join(d, name)
    with open(path, "w") as f:
        json.dump(
            {"property": prop, "oracle": violation["oracle"], "detail": violation.get("detail"),
             "tags": tags, "case": case},
            f, indent=1, sort_keys=True, default=str,
        )
    return path


def replay_file(prop, path, quiet=False):
    with open(path) as f:
        doc = json.load(f)
    case = doc["case"]
    res = exec_case_forked(prop, case)
    want = doc.get("oracle")
    hit = [v for v in res["violations"] if want is None or v["oracle"] == want]
    if not quiet:
        for ev in res["log"][-40:]:
            print("  log:", cjson(ev)[:400])
        for v in res["violations"]:
            print("  violation:", v["oracle"], str(v.get("detail"))[:600])
    return hit, res


def verify_replay_fresh(prop, path):
    """Replays the file in a fresh interpreter; True iff it fails the same way."""
    cmd = [sys.executable, os.path.join(VERIF_ROOT, "bin", "check"), prop, "--replay", path, "--quiet"]
    try:
        p = subprocess.run(cmd, capture_output=True, text=True, timeout=600)
    except subprocess.TimeoutExpired:
        return False
    return p.returncode == 1 and "VIOLATION" in p.stdout


def main(argv=None):
    ap = argparse.ArgumentParser()
    ap.add_argument("prop")
    ap.add_argument("--tier", default=os.environ.get("VERIF_TIER", "quick"), choices=["quick", "thorough"])
    ap.add_argument("--replay")
    ap.add_argument("--quiet", action="store_true")
    ap.add_argument("--runs", type=int, default=int(os.environ.get("VERIF_RUNS", "0")))
    ap.add_argument("--budget", type=float, default=float(os.environ.get("VERIF_BUDGET_S", "0")))
    ap.add_argument("--workers", type=int, default=int(os.environ.get("VERIF_WORKERS", "0")))
    ap.add_argument("--digests", help="write index->digest json here (determinism self-test)")
    ap.add_argument("--no-evidence", action="store_true")
    ap.add_argument("--show", type=int, help="print the generated case for run index and exit")
    ap.add_argument("--run-index", type=int, help="run a single index verbosely and exit")
    args = ap.parse_args(argv)
    prop = args.prop.upper()
    mod = _load(prop)
    batch_seed = int(os.environ.get("VERIF_SEED", "0"))

    if args.replay:
        hit, res = replay_file(prop, args.replay, quiet=args.quiet)
        if hit:
            print(f"VIOLATION property={prop} replay={args.replay}")
            return 1
        print(f"NO-VIOLATION property={prop} replay={args.replay}")
        return 0

    kf = findings_mod.load(prop)
    avoid = sorted(findings_mod.avoid_features(kf, prop))

    if args.show is not None:
        print(json.dumps(gen_case(prop, batch_seed, args.show, args.tier, avoid), indent=1, default=str))
        return 0
    if args.run_index is not None:
        r = fork_call(_run_one, (prop, batch_seed, args.run_index, args.tier, avoid, True, True), timeout=600)
        print(json.dumps(r, indent=1, default=str))
        return 1 if r.get("violations") else 0

    t0 = time.monotonic()
    print(f"SEED {batch_seed} property={prop} tier={args.tier}")
    defaults = getattr(mod, "BUDGETS", {})
    budget = args.budget or defaults.get(args.tier, 45.0 if args.tier == "quick" else 600.0)
    max_runs = args.runs or getattr(mod, "MAX_RUNS", {}).get(args.tier, 10**9)
    workers = args.workers or min(16, os.cpu_count() or 4)
    chunk = getattr(mod, "CHUNK", 8)

    exit_code = 0
    out_lines = []
    violations_reported = 0
    known_hits = {}

    # 1. canonical replays of known / fixed findings
    for entry in kf:
        path = os.path.join(VERIF_ROOT, entry["replay"])
        try:
            hit, _ = replay_file(prop, path, quiet=True)
        except HarnessError as e:
            print(f"HARNESS-ERROR finding-replay {entry['id']}: {str(e)[:300]}")
            exit_code = max(exit_code, 2)
            continue
        if entry["status"] == "known":
            if hit:
                print(f"KNOWN-FINDING: property={prop} {entry['what']} [{entry['id']}]")
                known_hits[entry["id"]] = known_hits.get(entry["id"], 0) + 1
            else:
                print(f"NOTE: known finding {entry['id']} no longer reproduces from its canonical replay")
        else:  # fixed: suppresses nothing
            if hit:
                print(f"VIOLATION property={prop} replay={path}")
                print(f"  (regression of fixed finding {entry['id']}: {entry['what']})")
                violations_reported += 1
                exit_code = 1

    # 2. seeded batch
    results = {}
    harness_errors = []
    discarded = []
    next_index = 0
    sample_upto = 3
    ctx = multiprocessing.get_context("fork")
    tb0 = time.monotonic()          # the batch budget starts after the canonical replays
    min_runs = min(max_runs, getattr(mod, "MIN_RUNS", 2 * chunk))
    hard_deadline = tb0 + budget * 4 + 300
    with cf.ProcessPoolExecutor(max_workers=workers, mp_context=ctx) as ex:
        pending = set()
        stop_submitting = False
        while True:
            now = time.monotonic()
            if (now - tb0 >= budget and next_index >= min_runs) or next_index >= max_runs:
                stop_submitting = True
            while not stop_submitting and len(pending) < workers + 2 and next_index < max_runs:
                idx = list(range(next_index, min(next_index + chunk, max_runs)))
                next_index = idx[-1] + 1
                pending.add(ex.submit(run_chunk, prop, batch_seed, idx, args.tier, avoid, sample_upto))
            if not pending:
                break
            done, pending = cf.wait(pending, timeout=1.0, return_when=cf.FIRST_COMPLETED)
            for fut in done:
                try:
                    for r in fut.result():
                        if "harness_error" in r:
                            harness_errors.append(r)
                        elif "discarded" in r:
                            discarded.append(r)
                        else:
                            results[r["i"]] = r
                except Exception as e:  # worker died
                    harness_errors.append({"i": -1, "harness_error": f"worker: {e}"})
            if time.monotonic() > hard_deadline:
                harness_errors.append({"i": -1, "harness_error": "hard deadline exceeded"})
                for p in list(getattr(ex, "_processes", {}).values()):
                    try:
                        p.kill()
                    except Exception:
                        pass
                break
    # fixed cases (e.g. a pinned corpus): always executed, indices from 10**9
    fixed = mod.fixed_cases() if hasattr(mod, "fixed_cases") else []
    for k, fcase in enumerate(fixed):
        idx = 10 ** 9 + k
        try:
            res = exec_case_forked(prop, fcase)
            results[idx] = {"i": idx, "digest": res["digest"], "key": res["key"], "violations": res["violations"],
                            "probes": res["probes"], "faults": res["faults"], "nontrivial": bool(res["nontrivial"]),
                            "sim_time": res["sim_time"], "steps": res["steps"], "keys": res.get("keys"), "units": 1,
                            "tags": sorted(mod.tags(fcase)), "fixed_case": fcase}
            for v in results[idx]["violations"]:
                v["alltags"] = sorted(set(results[idx]["tags"]) | set(v.get("tags", [])))
        except HarnessError as e:
            harness_errors.append({"i": idx, "harness_error": str(e)[:2000]})
    batch_wall = time.monotonic() - tb0
    order = sorted(results)

    # 3. violations: minimise, attribute, replay-verify, report
    viol_runs = [results[i] for i in order if results[i]["violations"]]
    min_cap = getattr(mod, "MINIMISE_CAP", 3 if args.tier == "quick" else 8)
    minimised = 0
    presumed_known = 0
    seen_sig = set()
    min_deadline = time.monotonic() + max(120.0, budget * 2)
    report_cap = getattr(mod, "REPORT_CAP", 4)
    unprocessed = 0
    for r in viol_runs:
        if violations_reported >= report_cap:
            unprocessed += 1
            continue
        by_oracle = {}
        for v in r["violations"]:
            by_oracle.setdefault(v["oracle"], v)
        for oracle, v in sorted(by_oracle.items()):
            raw_tags = v.get("alltags", r["tags"])
            pre = findings_mod.match(kf, oracle, raw_tags)
            if minimised >= min_cap or time.monotonic() > min_deadline:
                if pre is not None:
                    presumed_known += 1
                    known_hits[pre["id"]] = known_hits.get(pre["id"], 0) + 1
                    continue
                # cannot minimise further within budget: report unminimised (still a real violation)
            case = r["fixed_case"] if "fixed_case" in r else gen_case(prop, batch_seed, r["i"], args.tier, avoid)
            if minimised < min_cap and time.monotonic() <= min_deadline:
                minimised += 1
                mcase, spent = minimise(prop, case, oracle, budget=getattr(mod, "MINIMISE_BUDGET", 300),
                                        deadline=min_deadline)
            else:
                mcase, spent = case, 0
            v2 = _fails_same(prop, mcase, oracle) or v
            if hasattr(mod, "finalize"):
                fcase = mod.finalize(mcase, v2)
                v3 = _fails_same(prop, fcase, oracle)
                if v3 is not None:
                    mcase, v2 = fcase, v3
                    if getattr(mod, "SHRINK_AFTER_FINALIZE", False) and time.monotonic() <= min_deadline:
                        mcase, spent2 = minimise(prop, mcase, oracle, budget=getattr(mod, "MINIMISE_BUDGET", 300) // 2,
                                                 deadline=min_deadline)
                        spent += spent2
                        v2 = _fails_same(prop, mcase, oracle) or v2
            mtags = sorted(set(mod.tags(mcase)) | set(v2.get("tags", [])))
            entry = findings_mod.match(kf, oracle, mtags)
            if entry is not None:
                known_hits[entry["id"]] = known_hits.get(entry["id"], 0) + 1
                continue
            sig = (oracle, tuple(mtags))
            name = f"{prop}-{batch_seed}-{r['i']}-{oracle.replace('.', '_')}.json"
            path = write_replay(prop, mcase, v2, mtags, name)
            if verify_replay_fresh(prop, path):
                if sig in seen_sig:
                    print(f"  (duplicate of an already reported violation class: {path})")
                    continue
                seen_sig.add(sig)
                print(f"VIOLATION property={prop} replay={path}")
                print(f"  oracle={oracle} seed={batch_seed} run={r['i']} minimise_candidates={spent} tags={mtags}")
                print(f"  detail={str(v2.get('detail'))[:800]}")
                violations_reported += 1
                exit_code = 1
            else:
                print(f"HARNESS-ERROR nonreproducible property={prop} oracle={oracle} run={r['i']} replay={path}")
                exit_code = max(exit_code, 2) if exit_code != 1 else 1

    if unprocessed:
        print(f"  ({unprocessed} further violating runs not processed after {report_cap} reported violations)")
    printed = set()
    for entry in kf:
        if entry["status"] == "known" and known_hits.get(entry["id"]) and entry["id"] not in printed:
            printed.add(entry["id"])
            print(f"  known finding {entry['id']}: {known_hits[entry['id']]} hit(s) in this run (canonical replay + batch)")

    if discarded:
        print(f"  ({len(discarded)} generated case(s) discarded as invalid programs, e.g. run {discarded[0]['i']}: {discarded[0]['discarded'][:200]})")
        if len(discarded) > max(3, 0.02 * (len(results) + len(discarded))):
            harness_errors.append({"i": discarded[0]["i"], "harness_error": f"{len(discarded)} generated cases discarded: the generator is broken"})
    for he in harness_errors[:10]:
        print(f"HARNESS-ERROR run={he['i']}: {he['harness_error'][:1500]}")
    if harness_errors and exit_code == 0:
        exit_code = 2
    if not results and exit_code == 0:
        print("HARNESS-ERROR no run completed")
        exit_code = 2

    # 4. evidence
    wall = time.monotonic() - t0
    if results and not args.no_evidence:
        from .evidence import write_evidence

        write_evidence(prop, mod, args.tier, batch_seed, results, order, wall, batch_wall,
                       violations_reported, known_hits, presumed_known, harness_errors, workers, len(discarded))
    if args.digests:
        with open(args.digests, "w") as f:
            json.dump({str(i): results[i]["digest"] for i in order}, f)
    nv = sum(1 for i in order if results[i]["violations"])
    print(f"DONE property={prop} runs={len(order)} runs_with_violation={nv} reported={violations_reported} "
          f"known_hits={sum(known_hits.values())} harness_errors={len(harness_errors)} wall={wall:.1f}s exit={exit_code}")
    return exit_code


def entry():
    try:
        code = main()
    except HarnessError as e:
        print("HARNESS-ERROR", str(e)[:3000])
        code = 2
    except SystemExit:
        raise
    except BaseException:  # noqa
        traceback.print_exc()
        print("HARNESS-ERROR unexpected exception in driver")
        code = 2
    sys.stdout.flush()
    sys.exit(code)
