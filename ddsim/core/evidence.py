"""Evidence writer: every number is measured on this run."""
import json
import os

from .util import VERIF_ROOT


def _merge(dst, src):
    for k, v in src.items():
        dst[k] = dst.get(k, 0) + v


def write_evidence(prop, mod, tier, seed, results, order, wall, batch_wall, violations, known_hits,
                   presumed_known, harness_errors, workers, discarded=0):
    probes, faults = {}, {}
    keys = set()
    digests = set()
    sim_time = 0.0
    steps = 0
    units = 0
    samples = []
    for i in order:
        r = results[i]
        _merge(probes, r["probes"])
        _merge(faults, r["faults"])
        digests.add(r["digest"])
        units += r.get("units", 1)
        if r.get("keys") is not None:
            keys.update(r["keys"])
        elif r["nontrivial"]:
            keys.add(r["key"])
        sim_time += r["sim_time"]
        steps += r["steps"]
        if "sample" in r and len(samples) < 3:
            samples.append(r["sample"])
    n = len(order)
    declared = getattr(mod, "PROBES", [])
    for p in declared:
        probes.setdefault(p, 0)
    holes = sorted(p for p in declared if probes.get(p, 0) == 0)
    cov = {
        "evaluations": units,
        "simulated_runs": n,
        "distinct_nontrivial": len(keys),
        "rule": mod.RULE,
        "samples": samples,
        "exhaustive": False,
        "runs_per_hour": int(units / batch_wall * 3600) if batch_wall > 0 else 0,
        "seeds": {"batch_seed": seed, "run_indices": [order[0], order[-1]] if order else []},
        "sim_time_s": round(sim_time, 3),
        "sim_steps": steps,
        "distinct_run_digests": len(digests),
        "faults_injected": dict(sorted(faults.items())),
        "probes": dict(sorted(probes.items())),
        "probe_holes": holes,
        "components": mod.COMPONENTS,
        "known_finding_hits": known_hits,
        "presumed_known_unminimised": presumed_known,
        "harness_errors": len(harness_errors),
        "discarded_invalid_cases": discarded,
        "workers": workers,
    }
    extra = getattr(mod, "extra_evidence", None)
    if extra:
        cov.update(extra(results, order))
    doc = {
        "property_id": prop,
        "tier": tier,
        "seed": seed,
        "level": mod.LEVEL,
        "coverage": cov,
        "assumptions": list(mod.ASSUMPTIONS),
        "wall_s": round(wall, 2),
        "violations": violations,
    }
    d = os.path.join(VERIF_ROOT, "evidence")
    os.makedirs(d, exist_ok=True)
    tmp = os.path.join(d, f".{prop}.json.tmp")
    with open(tmp, "w") as f:
        json.dump(doc, f, indent=1, sort_keys=True, default=str)
    os.replace(tmp, os.path.join(d, f"{prop}.json"))
