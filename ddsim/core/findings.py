"""Known findings: committed, read-only at run time (see DESIGN.md 3.5)."""
import json
import os

from .util import VERIF_ROOT

FILE = os.path.join(VERIF_ROOT, "known_findings.json")


def load(prop=None):
    if not os.path.exists(FILE):
        return []
    with open(FILE) as f:
        doc = json.load(f)
    out = []
    for e in doc.get("findings", []):
        if prop is None or e["property"] == prop:
            out.append(e)
    return out


def match(kf, oracle, tags):
    """A violation is attributed to a known (not fixed) finding when the same oracle fired and the
    (minimised) case still contains every feature of the finding."""
    tags = set(tags)
    for e in kf:
        if e["status"] != "known":
            continue
        if oracle in e.get("oracles", [e["oracle"]]) and set(e["tags"]) <= tags:
            return e
    return None


def avoid_features(kf, prop=None):
    """Features to avoid: those of this property's known findings (explored in a small stratum) and, prefixed
    with '!', those of other properties' known findings (never generated here: their violations belong there)."""
    s = set()
    for e in load(None):
        if e["status"] == "known":
            for a in e.get("avoid", []):
                s.add(a if (prop is None or e["property"] == prop) else "!" + a)
    return s
