"""Program IR (plain dicts, JSON-serialisable) and renderer to Python source files.

prog = {
  "pkg": ["pk", "sub"],                  # package path of the accepted code; modules are pkg + [mod]
  "accept": 1,                           # number of leading segments passed to dds.accept_module
  "decoys": 0,                           # further accepted (unused) packages
  "mods": ["m0", "m1"],                  # module i may import from module j > i only
  "vars": {"V0": {"mod": "m1", "kind": "int", "value": 3}},
  "funcs": {"f0": {"mod": "m0", "kind": "plain|data|target", "path": "/a", "params": [["a", None]],
                    "ver": 1, "ret": "tuple|str|bytes", "pad": 0, "body": [item...], "comment": 0, "end": False}},
  "order": ["f0", ...],                  # definition order (per module, filtered)
  "extra": {"m0": ["text of unrelated definitions"]},
  "ext": {"EXTV": 1, "ext_ver": 1},       # state of the non-accepted module
}
items (each yields one local r<i> that is part of the return value):
  {"t": "var", "name": V, "form": "direct|from|attr"}
  {"t": "call", "f": F, "form": "direct|from|alias|attr|pkgattr"}   plain call, no arguments
  {"t": "ho", "f": F}                                                higher-order reference
  {"t": "keep", "path": P, "f": F, "args": [argspec], "pathform": "lit|var", "multiline": bool}
       argspec: {"k": "lit", "v": literal} | {"k": "rt", "e": "r0"} | {"k": "kw", "n": name, "v": literal}
  {"t": "load", "path": P}
  {"t": "ext"}                                                       call into the non-accepted module
  {"t": "extvar"}
"""
import copy

NODEFAULT = "__nodefault__"


def modname(prog, m):
    return ".".join(prog["pkg"] + [m])


def lit(v):
    if isinstance(v, dict) and "$var" in v:
        return v["$var"]        # a default value that is the module variable itself (`def f(a, k=V0)`)
    return repr(v)


def default_var(d):
    return d["$var"] if isinstance(d, dict) and "$var" in d else None


def mods_of(prog):
    return list(prog["mods"])


def funcs_in(prog, m):
    return [f for f in prog["order"] if prog["funcs"][f]["mod"] == m]


def render_value(kind, value):
    if kind == "pdict":
        return "{" + ", ".join(f"{k!r}: {v!r}" for k, v in value) + "}"
    if kind == "odict":
        return "OrderedDict(" + repr(list(value)) + ")"
    if kind == "path":
        return "PurePosixPath(" + repr(value) + ")"
    if kind == "bytes":
        return repr(bytes.fromhex(value))
    if kind == "tuple":
        return repr(tuple(value))
    return repr(value)


def _ref_name(prog, cur_mod, target_mod, name, form):
    """Text used inside a function body of cur_mod to reference `name` defined in target_mod."""
    if target_mod == cur_mod or form in ("direct", "from"):
        return name
    if form == "alias":
        return name + "_al"
    if form == "attr":
        return f"{target_mod}_mod.{name}"
    if form == "pkgattr":
        return modname(prog, target_mod) + "." + name
    raise ValueError(form)


def spell_path(path, how):
    """Another spelling of the same sequence of non-empty segments (the same location in every store)."""
    if how == "trail":
        return path + "/"
    if how == "dbl":
        return path.replace("/", "//", 1) if path.count("/") == 1 else "/".join(path.split("/")[:2]) + "//" + "/".join(path.split("/")[2:])
    if how == "lead":
        return "/" + path
    return path


def _rt_expr(a):
    """A run-time argument: a local name, or (after an `rtx` edit) an expression around it: `(r0, 3)`."""
    return a["e"] if a.get("x") is None else f"({a['e']}, {a['x']!r})"


def render_func(prog, fname):
    """Returns the source lines of one function (this is text(F) of DESIGN 4.1)."""
    f = prog["funcs"][fname]
    cur = f["mod"]
    lines = []
    if f["kind"] == "class":
        return _render_class(prog, fname)
    if f["kind"] == "data":
        pf = f.get("pathform", "lit")
        if pf == "lit":
            lines.append(f"@dds.data_function({f['path']!r})")
        else:
            lines.append(f"@dds.data_function(PATH_{fname})")
    params = []
    for (n, d) in f["params"]:
        params.append(n if d == NODEFAULT else f"{n}={lit(d)}")
    lines.append(f"def {fname}({', '.join(params)}):")
    lines.append(f"    rec({fname!r})")
    if f.get("ctext") is not None:
        lines.append(f"    # note {'x' * int(f['ctext'])}")      # a comment whose text (not its position) varies
    for _ in range(f.get("comment", 0)):
        lines.append("    # edited comment line")
    rs = []
    if f.get("tmpl"):
        # a text template that contains the comment character (SQL / YAML / Markdown style), part of the result
        n, style = f["tmpl"]["n"], f["tmpl"].get("style", "triple")
        if style == "triple":
            lines.append('    tq = """select a, b')
            lines.append(f"    from t  # tenant_{n}")
            lines.append('    where x = 1"""')
        elif style == "esc":
            lines.append(f'    tq = "it\\"s # v{n}"')
        else:
            lines.append(f"    tq = 'colour #ff{n:04d}'")
        rs.append("tq")
    for i, it in enumerate(f["body"]):
        t = it["t"]
        r = f"r{i}"
        rs.append(r)
        if t == "var":
            v = prog["vars"][it["name"]]
            nm_ = _ref_name(prog, cur, v['mod'], it['name'], it.get('form', 'direct'))
            lines.append(f"    {r} = list({nm_})" if it.get("keys") else f"    {r} = {nm_}")
        elif t == "call":
            g = prog["funcs"][it["f"]]
            nm = _ref_name(prog, cur, g["mod"], it["f"], it.get("form", "direct"))
            if g["kind"] == "class":
                lines.append(f"    {r} = {nm}({lit(it.get('carg', 1))}).m()")
            elif it.get("wrap") == "kw":
                lines.append(f"    {r} = ident(v={nm}())")          # callee only reachable through a keyword argument
            elif it.get("wrap") == "pos":
                lines.append(f"    {r} = ident({nm}())")
            elif it.get("wrap") == "chain":
                lines.append(f"    {r} = Box({nm}()).get()")        # ... through the inner call of a method chain
            elif it.get("wrap") == "hokw":
                lines.append(f"    {r} = ident(v=[0], key={nm}) and [g_() for g_ in [ident(key={nm})]]")
            elif it.get("rtarg") is not None:
                lines.append(f"    {r} = {nm}({it['rtarg']})")       # a plain helper called with a local
            else:
                lines.append(f"    {r} = {nm}()")
        elif t == "ho":
            g = prog["funcs"][it["f"]]
            nm = _ref_name(prog, cur, g["mod"], it["f"], it.get("form", "direct"))
            lines.append(f"    {r} = [g_() for g_ in [{nm}]]")
        elif t == "keep":
            g = prog["funcs"][it["f"]]
            nm = _ref_name(prog, cur, g["mod"], it["f"], "direct" if g["mod"] == cur else "from")
            pexpr = repr(spell_path(it["path"], it.get("pspell"))) if it.get("pathform", "lit") == "lit" else f"PATH_{fname}_{i}"
            args = []
            for a in it.get("args", []):
                if a["k"] == "lit":
                    args.append(lit(a["v"]))
                elif a["k"] == "rt":
                    args.append(_rt_expr(a))
                elif a["k"] == "kw":
                    args.append(f"{a['n']}={lit(a['v'])}")
                elif a["k"] == "kwrt":
                    args.append(f"{a['n']}={_rt_expr(a)}")
                elif a["k"] == "rtcall":
                    args.append(_ref_name(prog, cur, prog["funcs"][a["f"]]["mod"], a["f"], "direct") + "()")
                elif a["k"] == "kwrtcall":
                    args.append(f"{a['n']}=" + _ref_name(prog, cur, prog["funcs"][a["f"]]["mod"], a["f"], "direct") + "()")
            # "join": the statement starts on the line of the previous statement (`a = f(); b = dds.keep(...`)
            joined = bool(it.get("join")) and not lines[-1].lstrip().startswith(("#", "def ", "@")) and not lines[-1].rstrip().endswith((":", ","))
            if it.get("multiline"):
                first = f"{r} = dds.keep({pexpr}, {nm},"
                if joined:
                    lines[-1] = lines[-1] + "; " + first
                else:
                    lines.append("    " + first)
                for a in args:
                    lines.append(f"        {a},")
                lines.append("    )")
            else:
                stmt = f"{r} = dds.keep({', '.join([pexpr, nm] + args)})"
                if it.get("thread"):
                    # the keep is made by a thread started by the evaluated code (and joined before going on)
                    stmt = f"{r} = in_thread(lambda: dds.keep({', '.join([pexpr, nm] + args)}))"
                if joined:
                    lines[-1] = lines[-1] + "; " + stmt
                else:
                    lines.append("    " + stmt)
        elif t == "load":
            if it.get("thread"):
                # the load is made by a thread started by the evaluated code (and joined before going on)
                lines.append(f"    {r} = in_thread(lambda: dds.load({spell_path(it['path'], it.get('pspell'))!r}))")
            else:
                lines.append(f"    {r} = dds.load({spell_path(it['path'], it.get('pspell'))!r})")
        elif t == "comp":
            # a comprehension whose loop variable has the name of a module variable (it hides it inside the comprehension)
            lines.append(f"    {r} = [{it['name']} * 0 for {it['name']} in range(2)]")
        elif t == "lazy":
            # a function-local (lazy) import of an accepted library package that nothing else imports
            lines.append("    import lzlib.core")
            lines.append(f"    {r} = lzlib.core.lzf()")
        elif t == "shadow":
            # a module-level helper of THIS module that has the name of a tracked variable of ANOTHER module
            lines.append(f"    {r} = {it['name']}()")
        elif t == "eval":
            g = prog["funcs"][it["f"]]
            nm = _ref_name(prog, cur, g["mod"], it["f"], it.get("form", "direct"))
            call = {"dds": "dds.eval", "bare": "eval", "alias": "dds_eval", "mod": "dds_pkg.eval"}[it.get("spell", "dds")]
            lines.append(f"    {r} = {call}({nm})")
        elif t == "ext":
            # behaviour of non-accepted code is by design not tracked: its value never flows into the result
            lines.append(f"    {r} = extlib{it.get('m', 0) or ''}.ext_fn() and None")
        elif t == "extvar":
            lines.append(f"    {r} = extlib{it.get('m', 0) or ''}.EXTV and None")
        else:
            raise ValueError(t)
    if f.get("end"):
        lines.append(f"    rec({fname + ':end'!r})")
    tup = ", ".join([repr(fname), str(f["ver"])] + [n for (n, _) in f["params"]] + rs)
    ret = f.get("ret", "tuple")
    if ret == "tuple":
        lines.append(f"    return ({tup},)")
    elif ret == "str":
        # (text results may carry line ends of any convention: they are stored verbatim)
        eol = f" + {f['eol']!r}" if f.get("eol") else ""
        lines.append(f"    return repr(({tup},)) + '#' * {f.get('pad', 0)}{eol}")
    elif ret == "bytes":
        lines.append(f"    return (repr(({tup},)) + '#' * {f.get('pad', 0)}).encode('utf-8')")
    elif ret == "none":
        lines.append("    return None")
    else:
        raise ValueError(ret)
    return lines


def _render_class(prog, fname):
    """A class with a constructor argument and one method whose body is rendered like a function body."""
    f = prog["funcs"][fname]
    tmp = dict(f, kind="plain", params=[], end=False)
    p2 = dict(prog, funcs=dict(prog["funcs"], **{fname: tmp}))
    body = render_func(p2, fname)
    # body = ["def name():", "    rec(name)", items..., "    return (...)"]
    lines = [f"class {fname}(object):", "    def __init__(self, a0):", "        self.a0 = a0", "",
             "    def m(self):"]
    for ln in body[1:-1]:
        lines.append("    " + ln)
    ret = body[-1].strip()
    # splice the constructor argument into the returned tuple
    ret = ret.replace(f"return ({fname!r}, {f['ver']}", f"return ({fname!r}, {f['ver']}, self.a0", 1)
    lines.append("        " + ret)
    return lines


def _imports_for(prog, m):
    """Import lines of module m derived from the references its functions make."""
    if prog.get("rec_builtin"):
        # rec / ident / Box are installed in builtins by simutil: the functions then have no external name at all
        lines = ["import dds", "import simutil"]
    else:
        lines = ["import dds", "from simutil import rec, ident, Box, in_thread"]
    for k, em in enumerate(prog.get("extmods", ["extlib"])):
        lines.append(f"import {em} as extlib{k or ''}")
    spells = {it.get("spell", "dds") for fn in funcs_in(prog, m) for it in prog["funcs"][fn]["body"] if it["t"] == "eval"}
    if "bare" in spells:
        lines.append("from dds import eval")
    if "alias" in spells:
        lines.append("from dds import eval as dds_eval")
    if "mod" in spells:
        lines.append("import dds as dds_pkg")
    froms, aliases, attrs, pkgattrs = set(), set(), set(), set()
    need_od = need_path = False
    for vn, v in prog["vars"].items():
        if v["mod"] == m:
            if v["kind"] == "odict":
                need_od = True
            if v["kind"] == "path":
                need_path = True
    for fn in funcs_in(prog, m):
        f = prog["funcs"][fn]
        for it in f["body"]:
            for a in it.get("args", []):
                if a["k"] in ("rtcall", "kwrtcall") and prog["funcs"][a["f"]]["mod"] != m:
                    froms.add((prog["funcs"][a["f"]]["mod"], a["f"]))
            t = it["t"]
            if t == "var":
                tm = prog["vars"][it["name"]]["mod"]
                nm = it["name"]
            elif t in ("call", "ho", "keep", "eval"):
                tm = prog["funcs"][it["f"]]["mod"]
                nm = it["f"]
            else:
                continue
            if tm == m:
                continue
            form = it.get("form", "direct") if t != "keep" else it.get("form", "from")
            if t == "keep" and form == "direct":
                form = "from"
            if form in ("direct", "from"):
                froms.add((tm, nm))
            elif form == "alias":
                aliases.add((tm, nm))
            elif form == "attr":
                attrs.add(tm)
            elif form == "pkgattr":
                pkgattrs.add(tm)
    if need_od:
        lines.append("from collections import OrderedDict")
    if need_path:
        lines.append("from pathlib import PurePosixPath")
    for tm, nm in sorted(froms):
        lines.append(f"from {modname(prog, tm)} import {nm}")
    for tm, nm in sorted(aliases):
        lines.append(f"from {modname(prog, tm)} import {nm} as {nm}_al")
    for tm in sorted(attrs):
        lines.append(f"from {'.'.join(prog['pkg'])} import {tm} as {tm}_mod")
    for tm in sorted(pkgattrs):
        lines.append(f"import {modname(prog, tm)}")
    return lines


def _path_value(path, form):
    """A module-level path constant: a str, or (form "obj") a pathlib.Path object."""
    return f"__import__('pathlib').Path({path!r})" if form == "obj" else repr(path)


def has_lazy(prog):
    return any(it["t"] == "lazy" for f in prog["funcs"].values() for it in f["body"])


def lazy_text(prog):
    return ["def lzf():", f"    return ('lz', {prog.get('ext', {}).get('lz_ver', 1)!r})"]


def shadow_names(prog, m):
    return sorted({it["name"] for fn in funcs_in(prog, m) for it in prog["funcs"][fn]["body"] if it["t"] == "shadow"})


BUILTIN_NAMES = ["filter", "format", "max", "hash", "round", "sorted"]


def shadow_text(name, prog=None):
    if name in BUILTIN_NAMES:
        # a user function of the module named like a builtin (it shadows the builtin in this module)
        ver = (prog or {}).get("ext", {}).get("bf_ver", 1)
        return [f"def {name}():", f"    return ('helper', {name!r}, {ver!r})"]
    return [f"def {name}():", f"    return ('helper', {name!r})"]


def render(prog):
    """Returns {relative file path: text} for the whole source tree."""
    files = {}
    pk = prog["pkg"]
    for d in range(1, len(pk) + 1):
        files["/".join(pk[:d]) + "/__init__.py"] = ""
    for m in prog["mods"]:
        lines = _imports_for(prog, m)
        lines.append("")
        for vn in sorted(prog["vars"]):
            v = prog["vars"][vn]
            if v["mod"] == m:
                lines.append(f"{vn} = {render_value(v['kind'], v['value'])}")
        # path variables
        for fn in funcs_in(prog, m):
            f = prog["funcs"][fn]
            if f["kind"] == "data" and f.get("pathform", "lit") != "lit":
                lines.append(f"PATH_{fn} = {_path_value(f['path'], f['pathform'])}")
            for i, it in enumerate(f["body"]):
                if it["t"] == "keep" and it.get("pathform", "lit") != "lit":
                    lines.append(f"PATH_{fn}_{i} = {_path_value(it['path'], it['pathform'])}")
        for sn in shadow_names(prog, m):
            lines.append("")
            lines.extend(shadow_text(sn, prog))
        extra = prog.get("extra", {}).get(m, [])
        pre = [e for e in extra if e.get("pos", "top") == "top"]
        for e in pre:
            lines.append("")
            lines.extend(e["text"].split("\n"))
        for fn in funcs_in(prog, m):
            lines.append("")
            lines.append("")
            lines.extend(render_func(prog, fn))
            for e in extra:
                if e.get("pos") == "after:" + fn:
                    lines.append("")
                    lines.extend(e["text"].split("\n"))
        lines.append("")
        files["/".join(pk + [m]) + ".py"] = "\n".join(lines)
    if has_lazy(prog):
        files["lzlib/__init__.py"] = "from . import core\n"
        files["lzlib/core.py"] = "\n".join(lazy_text(prog)) + "\n"
    ext = prog.get("ext", {"EXTV": 1, "ext_ver": 1})
    for k, em in enumerate(prog.get("extmods", ["extlib"])):
        parts = em.split(".")
        for d in range(1, len(parts)):
            files.setdefault("/".join(parts[:d]) + "/__init__.py", "")
        files["/".join(parts) + ".py"] = (
            "import dds\nfrom simutil import rec\n\n"
            f"EXTV = {ext['EXTV']!r}\n\n\ndef ext_fn():\n    return ('ext', {ext['ext_ver']!r})\n\n\n"
            f"@dds.data_function('/ext{k}/d')\ndef ext_data():\n    rec('ext_data')\n    return ('ext_data', {ext['ext_ver']!r})\n"
        )
    files["simutil.py"] = SIMUTIL
    for i in range(prog.get("decoys", 0)):
        files[f"decoy{i}/__init__.py"] = ""
    return files


SIMUTIL = '''"""Execution log and user-code fault point (non-accepted module)."""
LOG = []
FAIL = None  # {"at": name, "exc": exception object}


def ident(v=None, *args, **kwargs):
    return kwargs.get("key") if v is None and "key" in kwargs else v


class Box(object):
    def __init__(self, v):
        self.v = v

    def get(self):
        return self.v


def in_thread(fn):
    import threading

    box = {}

    def run():
        try:
            box["v"] = fn()
        except BaseException as e:  # noqa
            box["e"] = e

    t = threading.Thread(target=run)
    t.start()
    t.join()
    if "e" in box:
        raise box["e"]
    return box["v"]


def rec(name):
    f = FAIL
    if f is not None and f["at"] == name:
        LOG.append(name + "!fail")
        raise f["exc"]
    LOG.append(name)
    return name


import builtins as _b

_b.rec, _b.ident, _b.Box, _b.in_thread = rec, ident, Box, in_thread
'''


def accepted_names(prog):
    names = [".".join(prog["pkg"][: prog.get("accept", 1)])]
    names += [f"decoy{i}" for i in range(prog.get("decoys", 0))]
    # further packages accepted AFTER the program's own one, e.g. a name that is a plain string prefix of it
    names += list(prog.get("accept_after", []))
    if has_lazy(prog):
        names.append("lzlib")       # accepted by name: accepting does not import it
    # packages nested INSIDE the program's accepted package, accepted as well (before or after it): no effect expected
    nested = list(prog.get("accept_nested", []))
    if prog.get("accept_nested_first"):
        names = nested + names
    else:
        names += nested
    return names


def own_accepted_names(prog):
    """The accepted names that cover the program's own code (its accepted prefix and the names nested below it), in
    the order of accepted_names(): what a late `accept_module` adds."""
    main = ".".join(prog["pkg"][: prog.get("accept", 1)])
    return [n for n in accepted_names(prog) if n == main or n.startswith(main + ".")]


def clone(prog):
    return copy.deepcopy(prog)
