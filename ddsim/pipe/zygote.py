"""Zygote interpreters started with a chosen PYTHONHASHSEED (C03): each request is served by a forked child of
the zygote, which has only imported dds. One request at a time per zygote."""
import os
import pickle
import struct
import subprocess
import sys

from ..core.util import HarnessError, VERIF_ROOT

_zygotes = {}

MAIN = r'''
import os, sys, pickle, struct
sys.dont_write_bytecode = True
sys.path.insert(0, {root!r})
sys.path.insert(0, {repo!r})
import dds, dds._plotting
try:
    import IPython
except ImportError:
    pass
from ddsim.pipe.proc import Server
from ddsim.core.util import quiet_process
inp, out = sys.stdin.buffer, sys.stdout.buffer
def readn(n):
    b = inp.read(n)
    return b if len(b) == n else None
while True:
    hdr = readn(4)
    if hdr is None:
        break
    (n,) = struct.unpack("!I", hdr)
    req = pickle.loads(readn(n))
    r, w = os.pipe()
    pid = os.fork()
    if pid == 0:
        os.close(r)
        try:
            quiet_process()
            srv = Server()
            reps = []
            for cmd in req["cmds"]:
                try:
                    reps.append(srv.handle(cmd))
                except BaseException as e:
                    import traceback
                    reps.append(["harness", "%s: %s\n%s" % (type(e).__name__, e, traceback.format_exc()[-2000:])])
                    break
            data = pickle.dumps({{"replies": reps, "hashseed": os.environ.get("PYTHONHASHSEED"), "hash_a": hash("a")}})
            os.write(w, struct.pack("!I", len(data)))
            mv = memoryview(data)
            while mv:
                k = os.write(w, mv)
                mv = mv[k:]
        finally:
            os._exit(0)
    os.close(w)
    chunks = []
    while True:
        b = os.read(r, 1 << 20)
        if not b:
            break
        chunks.append(b)
    os.close(r)
    os.waitpid(pid, 0)
    data = b"".join(chunks)
    out.write(data if data else struct.pack("!I", 0))
    out.flush()
'''


def start(hashseed):
    """Called in the pool worker (the zygote must outlive the per-run forks)."""
    key = str(hashseed)
    if key in _zygotes:
        return
    env = dict(os.environ)
    env["PYTHONHASHSEED"] = key
    code = MAIN.format(root=VERIF_ROOT, repo=os.environ.get("DDS_VERIF_REPO", "/repo"))
    p = subprocess.Popen([sys.executable, "-B", "-c", code], stdin=subprocess.PIPE, stdout=subprocess.PIPE, env=env)
    _zygotes[key] = p


def request(hashseed, cmds):
    key = str(hashseed)
    if key not in _zygotes:
        start(hashseed)
    p = _zygotes[key]
    data = pickle.dumps({"cmds": cmds})
    p.stdin.write(struct.pack("!I", len(data)) + data)
    p.stdin.flush()
    hdr = p.stdout.read(4)
    if len(hdr) < 4:
        raise HarnessError(f"zygote {key} died")
    (n,) = struct.unpack("!I", hdr)
    if n == 0:
        raise HarnessError(f"zygote {key}: child produced no reply")
    body = b""
    while len(body) < n:
        b = p.stdout.read(n - len(body))
        if not b:
            raise HarnessError(f"zygote {key} truncated reply")
        body += b
    rep = pickle.loads(body)
    for r in rep["replies"]:
        if r[0] == "harness":
            raise HarnessError("zygote child: " + r[1])
    return rep
