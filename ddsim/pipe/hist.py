"""Seeded history generation, shrinking and tagging shared by the engine-P properties."""
import copy

from ..core.shrink import list_removals
from . import gen, ir

ALL_EDITS = ["var", "ver", "comment", "lit", "rtx", "default", "unrelated", "reorder", "ext", "move", "respell", "path", "lzver", "tmpl", "bfver"]
INSIDE_EDITS = ["var", "ver", "comment", "lit", "rtx", "default", "lzver", "tmpl", "bfver"]
OUTSIDE_EDITS = ["unrelated", "reorder", "ext", "move", "respell"]


def gen_store(cfg, kinds=("local", "local", "local+cache", "memory", "noop")):
    k = cfg.choice(list(kinds))
    if k == "local":
        return {"kind": "local"}
    if k == "local+cache":
        return {"kind": "local", "cache": cfg.choice([1, 2, 3, 10, True, -1])}
    if k == "memory":
        return {"kind": "memory"}
    return {"kind": "noop"}


def gen_history(streams, tier, profile):
    """profile: {"edits": [...kinds], "n": (lo, hi), "p_restart": x, "p_revert": x, "styles": [...], "stores": (...),
    "p_switch": x, "p_load": x, "p_mutate": x, "feat": callable(cfg) -> feat}"""
    cfg = streams.get("config")
    prng = streams.get("program")
    hrng = streams.get("history")
    feat = profile["feat"](cfg, profile.get("avoid", ()))
    if tier == "thorough" and cfg.random() < 0.5:
        # deeper bounds in the thorough tier: larger call graphs, more variables, more modules
        feat["nfuncs"] = cfg.randint(6, 11)
        feat["nvars"] = cfg.randint(2, 8)
        feat["nmods"] = cfg.choice([1, 2, 3, 4])
    prog = gen.gen_program(prng, feat)
    store = gen_store(cfg, profile.get("stores", ("local", "local", "local+cache", "memory", "noop")))
    lo, hi = profile.get("n", (3, 10))
    n = cfg.randint(lo, hi)
    edit_kinds = [k for k in profile["edits"] if cfg.random() < 0.7] or [profile["edits"][0]]
    p_restart = profile.get("p_restart", 0.7)
    ops = []
    cur = prog
    nedits = 0
    ents = gen.entries(cur)
    styles = profile.get("styles", ["eval", "eval", "call"])
    pla = profile.get("p_load_after", 0.0)
    seen_paths = []
    two_procs = [False]

    def loads_after():
        for p in gen.all_paths(cur):
            if p not in seen_paths:
                seen_paths.append(p)
        if pla and hrng.random() < pla:
            k = hrng.randint(1, 4)
            for p in hrng.sample(seen_paths, min(k, len(seen_paths))):
                lop = {"op": "load", "path": p, "fresh": hrng.random() < 0.4, "file": hrng.random() < 0.5}
                if not lop["fresh"] and two_procs[0] and hrng.random() < 0.4:
                    lop["proc"] = 1       # the long-running second process (it may run an older version of the code)
                ops.append(lop)

    ops.append({"op": "eval", "entry": hrng.choice(ents), "style": hrng.choice(styles)})
    loads_after()
    weights = {"eval": 0.42, "edit": 0.28, "revert": profile.get("p_revert", 0.06), "restart": 0.10,
               "switch": profile.get("p_switch", 0.02), "mutate": profile.get("p_mutate", 0.0), "chdir": 0.03}
    names = sorted(weights)
    total = sum(weights.values())
    p2 = profile.get("p_proc2", 0.0)
    two = p2 > 0 and cfg.random() < p2      # a second, long-running process next to the main one
    two_procs[0] = two
    if two and store == {"kind": "local"} and "local+cache" in profile.get("stores", ("local+cache",)) and cfg.random() < 0.5:
        # two live processes on one directory, each with its own object cache: the coherence case of the LRU wrapper
        store = {"kind": "local", "cache": cfg.choice([1, 2, 3, 10, True, -1])}

    def pick():
        r = hrng.random() * total
        for k in names:
            r -= weights[k]
            if r <= 0:
                return k
        return "eval"

    def proc():
        return 1 if (two and hrng.random() < 0.4) else 0

    while len(ops) < n:
        k = pick()
        if k == "eval":
            ents = gen.entries(cur)
            op = {"op": "eval", "entry": hrng.choice(ents), "style": hrng.choice(styles)}
            # come back to the first entry point: what was stored before an edit is then asked for again
            if ops[0].get("entry") in ents and hrng.random() < (0.7 if (feat.get("layout") or feat.get("vardefaults")) else 0.3):
                op["entry"] = ops[0]["entry"]
            if profile.get("p_driver_keep", 0.0) and hrng.random() < profile["p_driver_keep"]:
                kes = gen.keep_entries(cur)
                if kes:
                    op = {"op": "eval", "entry": hrng.choice(kes), "style": "keep"}
            pr = proc()
            if pr:
                op["proc"] = pr
            ops.append(op)
            loads_after()
        elif k == "edit":
            e = None
            if feat.get("layout") and "lit" in profile["edits"] and hrng.random() < 0.5:
                want = hrng.choice(["lit", "rtx"]) if "rtx" in profile["edits"] else "lit"
                e = gen.gen_edit(hrng, cur, [want])
                if e["kind"] != want:
                    e = None
            if e is None and feat.get("vardefaults") and "var" in profile["edits"] and hrng.random() < 0.4:
                e = gen.gen_edit(hrng, cur, ["var"])
                if e["kind"] != "var":
                    e = None
            if e is None and feat.get("tmpl") and "tmpl" in profile["edits"] and hrng.random() < 0.4:
                e = gen.gen_edit(hrng, cur, ["tmpl"])
                if e["kind"] != "tmpl":
                    e = None
            if e is None and feat.get("bshadows") and "bfver" in profile["edits"] and hrng.random() < 0.4:
                e = gen.gen_edit(hrng, cur, ["bfver"])
                if e["kind"] != "bfver":
                    e = None
            if e is None and feat.get("lazy") and "lzver" in profile["edits"] and hrng.random() < 0.4:
                e = gen.gen_edit(hrng, cur, ["lzver"])
                if e["kind"] != "lzver":
                    e = None
            if e is None:
                e = gen.gen_edit(hrng, cur, edit_kinds)
            cur = gen.apply_edit(cur, e)
            nedits += 1
            ops.append({"op": "edit", "edit": e})
            if hrng.random() < p_restart:
                ops.append({"op": "restart"})
            if e["kind"] == "addload" and hrng.random() < 0.6:
                # ask directly for the function that now reads a path: as a data function call / driver-level keep
                g = cur["funcs"].get(e["f"], {})
                follow = None
                if g.get("kind") == "data":
                    follow = {"op": "eval", "entry": e["f"], "style": "call"}
                elif g.get("kind") == "target" and e["f"] in gen.keep_entries(cur):
                    follow = {"op": "eval", "entry": e["f"], "style": "keep"}
                if follow is not None:
                    if ops[-1]["op"] != "restart":
                        ops.append({"op": "restart"})
                    ops.append(follow)
        elif k == "revert" and nedits:
            ops.append({"op": "revert", "to": hrng.randrange(0, nedits)})
            nedits += 1
            ops.append({"op": "restart"})
        elif k == "restart":
            ops.append({"op": "restart"})
        elif k == "switch":
            ops.append({"op": "switch_store", "store": gen_store(cfg, profile.get("stores", ("local", "memory")))})
        elif k == "mutate" and cur["vars"]:
            v = hrng.choice(sorted(cur["vars"]))
            if any(ir.default_var(d) == v for f in cur["funcs"].values() for (_, d) in f["params"]):
                continue    # a default keeps the object bound at definition time: rebinding the module variable
                            # in a running process does not reach it (the cone model has no notion of that)
            kind = cur["vars"][v]["kind"]
            op = {"op": "mutate", "var": v, "value": hrng.choice(gen.VAR_VALUES[kind]), "inplace": hrng.random() < 0.5}
            partner = gen.nested_partner(cur["vars"][v]["value"])
            if partner is not None and hrng.random() < 0.6:
                op.update({"value": partner, "inplace": True})      # an update inside a nested container, in place
            pr = proc()
            if pr:
                op["proc"] = pr
            ops.append(op)
        elif k == "chdir":
            ops.append({"op": "chdir"})
    # always end with an evaluation after the last change
    ops.append({"op": "eval", "entry": hrng.choice(gen.entries(cur)), "style": hrng.choice(styles)})
    loads_after()
    if two and feat.get("loads") and hrng.random() < 0.6:
        _coherence_pattern(cur, ops, hrng, gen)
    elif two and profile.get("p_load_after") and hrng.random() < 0.5:
        _driver_coherence_pattern(cur, ops, hrng, gen)
    loc = cfg.choice(profile.get("locations", ["package"]))
    case = {"prog": prog, "feat": feat, "store": store, "ops": ops, "options": [], "location": loc}
    if loc == "notebook":
        case["nb_single_cell"] = cfg.random() < 0.4
        # in a notebook an edit is usually followed by re-running the cell of the edited function, not by a restart
        out = []
        for k, op in enumerate(ops):
            out.append(op)
            if op["op"] == "edit" and op["edit"].get("f") and op["edit"]["kind"] in ("ver", "comment", "lit", "rtx", "respell") \
                    and cfg.random() < 0.6:
                if k + 1 < len(ops) and ops[k + 1]["op"] == "restart":
                    ops[k + 1] = {"op": "redefine", "f": op["edit"]["f"]}
                else:
                    out.append({"op": "redefine", "f": op["edit"]["f"]})
        case["ops"] = out
    return case


def final_prog(case):
    versions = [case["prog"]]
    cur = 0
    for op in case["ops"]:
        if op["op"] == "edit":
            versions.append(gen.apply_edit(versions[cur], op["edit"]))
            cur = len(versions) - 1
        elif op["op"] == "revert":
            versions.append(versions[min(op["to"], len(versions) - 1)])
            cur = len(versions) - 1
    return versions[cur]


def _coherence_pattern(cur, ops, hrng, gen):
    """Two live processes and a path that one of them only reads: the long-running process evaluates a reader of a
    path, the main process re-produces the path from edited code, the long-running process reads again."""
    from .cone import Cones

    prods = Cones(cur).producers()
    ents = gen.entries(cur)
    reach = {e: gen.reachable(cur, e) for e in ents}
    cands = []
    for r in ents:
        for fn in sorted(reach[r]):
            for it in cur["funcs"][fn]["body"]:
                if it["t"] != "load" or it["path"] not in prods:
                    continue
                prod = prods[it["path"]]
                if prod[1] in reach[r]:
                    continue
                target = prod[1] if prod[0] == "data" else cur["funcs"][prod[1]]["body"][prod[2]]["f"]
                for e in ents:
                    if e != r and prod[1] in reach[e] and target not in reach[r]:
                        cands.append((r, e, target, it["path"]))
    if not cands:
        return
    r, e, target, path = hrng.choice(cands)
    ops += [{"op": "eval", "entry": e, "style": "eval"},
            {"op": "eval", "entry": r, "style": "eval", "proc": 1},
            {"op": "edit", "edit": {"kind": "ver", "f": target}},
            {"op": "restart"},
            {"op": "eval", "entry": e, "style": "eval"},
            {"op": "eval", "entry": r, "style": "eval", "proc": 1},
            {"op": "load", "path": path, "fresh": False, "file": False, "proc": 1}]


def _driver_coherence_pattern(cur, ops, hrng, gen):
    """The long-running process produces a path, the main process re-produces it from edited code, the long-running
    process then reads it back with a driver-level dds.load."""
    from .cone import Cones

    prods = Cones(cur).producers()
    ents = gen.entries(cur)
    cands = []
    for e in ents:
        reach = gen.reachable(cur, e)
        for pth, prod in sorted(prods.items()):
            if prod[1] in reach:
                target = prod[1] if prod[0] == "data" else cur["funcs"][prod[1]]["body"][prod[2]]["f"]
                cands.append((e, pth, target))
    if not cands:
        return
    e, pth, target = hrng.choice(cands)
    ops += [{"op": "eval", "entry": e, "style": "eval", "proc": 1},
            {"op": "load", "path": pth, "fresh": False, "file": False, "proc": 1},
            {"op": "edit", "edit": {"kind": "ver", "f": target}},
            {"op": "restart"},
            {"op": "eval", "entry": e, "style": "eval"},
            {"op": "load", "path": pth, "fresh": False, "file": True, "proc": 1}]


def shrink_history(case):
    """Candidates: fewer operations first, then a smaller program, then simpler configuration."""
    nacc = sum(1 for o in case["ops"] if o["op"] == "accept")
    if case.get("late_accept"):
        # the ordinary configuration: everything accepted when the process starts
        c = copy.deepcopy(case)
        c["late_accept"] = False
        c["ops"] = [o for o in c["ops"] if o["op"] != "accept"]
        yield c
    for ops in list_removals(case["ops"], 1):
        if sum(1 for o in ops if o["op"] == "accept") != nacc:
            continue        # (a process that never accepts its package is another configuration, not a smaller one)
        c = copy.deepcopy(case)
        c["ops"] = ops
        yield c
    prog = case["prog"]
    names = sorted(prog["funcs"], reverse=True)
    used_entries = {op["entry"] for op in case["ops"] if op["op"] in ("eval", "illeval")}
    ill_used = set()
    for e in used_entries:
        if e in prog["funcs"] and prog["funcs"][e].get("ill"):
            ill_used |= gen.reachable(prog, e)
    for fn in names:
        if fn in used_entries or fn in ill_used:
            continue
        c = copy.deepcopy(case)
        del c["prog"]["funcs"][fn]
        c["prog"]["order"] = [x for x in c["prog"]["order"] if x != fn]
        for g in c["prog"]["funcs"].values():
            g["body"] = [it for it in g["body"] if it.get("f") != fn]
            for it in g["body"]:
                for a in it.get("args", []):
                    if a.get("f") == fn:
                        if a["k"] == "rtcall":
                            a.clear()
                            a.update({"k": "lit", "v": 1})
                        else:
                            n_ = a["n"]
                            a.clear()
                            a.update({"k": "kw", "n": n_, "v": 1})
        gen.renumber_rt(c["prog"])
        c["ops"] = [op for op in c["ops"] if not (op["op"] == "edit" and op["edit"].get("f") == fn)]
        yield c
    for fn in sorted(prog["funcs"]):
        f = prog["funcs"][fn]
        if f.get("ill"):
            continue   # the expected error code is a property of the ill-formed construct: never shrink it
        for idx in range(len(f["body"]) - 1, -1, -1):
            c = copy.deepcopy(case)
            del c["prog"]["funcs"][fn]["body"][idx]
            gen.renumber_rt(c["prog"])
            # item indices used by edits shift: drop edits addressing items of this function at/after idx
            c["ops"] = [op for op in c["ops"] if not (op["op"] == "edit" and op["edit"].get("f") == fn and
                                                       op["edit"].get("item", -1) >= idx)]
            yield c
    for v in sorted(prog["vars"]):
        if any(it.get("name") == v for f in prog["funcs"].values() for it in f["body"]):
            continue
        if any(ir.default_var(d) == v for f in prog["funcs"].values() for (_, d) in f["params"]):
            continue
        c = copy.deepcopy(case)
        del c["prog"]["vars"][v]
        yield c
    if case.get("location", "package") != "package":
        c = copy.deepcopy(case)
        c["location"] = "package"
        yield c
    if case["store"] != {"kind": "local"} and case["store"]["kind"] != "memory":
        c = copy.deepcopy(case)
        c["store"] = {"kind": "local"}
        yield c
    if len(prog["pkg"]) > 1:
        c = copy.deepcopy(case)
        c["prog"]["pkg"] = ["pk"]
        c["prog"]["accept"] = 1
        yield c
    for fn in sorted(prog["funcs"]):
        f = prog["funcs"][fn]
        if f.get("ret", "tuple") != "tuple":
            c = copy.deepcopy(case)
            c["prog"]["funcs"][fn]["ret"] = "tuple"
            yield c
        for i, it in enumerate(f["body"]):
            if it.get("form", "direct") not in ("direct", "from"):
                c = copy.deepcopy(case)
                c["prog"]["funcs"][fn]["body"][i]["form"] = "from"
                yield c
            if it.get("multiline"):
                c = copy.deepcopy(case)
                c["prog"]["funcs"][fn]["body"][i]["multiline"] = False
                yield c
            if it.get("join"):
                c = copy.deepcopy(case)
                c["prog"]["funcs"][fn]["body"][i]["join"] = False
                yield c
            if it.get("pspell"):
                c = copy.deepcopy(case)
                c["prog"]["funcs"][fn]["body"][i]["pspell"] = None
                yield c
            if it.get("pathform", "lit") != "lit":
                c = copy.deepcopy(case)
                c["prog"]["funcs"][fn]["body"][i]["pathform"] = "lit"
                yield c
    if len(prog["mods"]) > 1 and not any(it["t"] == "shadow" for f in prog["funcs"].values() for it in f["body"]):
        c = copy.deepcopy(case)
        for f in c["prog"]["funcs"].values():
            f["mod"] = "m0"
        for v in c["prog"]["vars"].values():
            v["mod"] = "m0"
        c["prog"]["mods"] = ["m0"]
        gen._refresh_forms(c["prog"])
        c["ops"] = [op for op in c["ops"] if not (op["op"] == "edit" and op["edit"]["kind"] in ("move", "unrelated"))]
        yield c


def feature_tags(case):
    """Feature tags of a (minimised) case: what the program and the history contain."""
    t = set()
    prog = case["prog"]
    for v in prog["vars"].values():
        if any(it.get("name") for f in prog["funcs"].values() for it in f["body"] if it["t"] == "var"):
            t.add("var:" + v["kind"])
    for f in prog["funcs"].values():
        t.add("fn:" + f["kind"])
        if f.get("ret", "tuple") != "tuple":
            t.add("ret:" + f["ret"])
        if f.get("pathform", "lit") != "lit":
            t.add("pathform:" + f["pathform"])
        if f.get("tmpl"):
            t.add("tmpl:" + f["tmpl"].get("style", "triple"))
        for (n, d) in f["params"]:
            if ir.default_var(d):
                t.add("default")
                t.add("default:var")
                continue
            if d != ir.NODEFAULT:
                t.add("default")
                if not d and d is not None:
                    t.add("default:falsy")
                if d is None:
                    t.add("default:none")
        for it in f["body"]:
            t.add("item:" + it["t"])
            if it.get("form", "direct") not in ("direct",):
                t.add({"var": "varform:", "call": "callform:", "ho": "hoform:"}.get(it["t"], "form:") + it["form"])
            if it.get("multiline"):
                t.add("multiline")
            if it.get("pathform", "lit") != "lit":
                t.add("pathform:" + it["pathform"])
            for a in it.get("args", []):
                t.add("arg:" + a["k"])
            if it.get("wrap"):
                t.add("wrap:" + it["wrap"])
            if it.get("join"):
                t.add("join")
            if it.get("pspell"):
                t.add("pathspell:" + it["t"])
            if it.get("thread"):
                t.add(("load" if it["t"] == "load" else "keep") + ":thread")
            if it["t"] == "shadow" and it["name"] in ir.BUILTIN_NAMES:
                t.add("shadow:builtin")
            if it.get("rtarg") is not None:
                t.add("call:rtarg")
            if it["t"] == "eval" and it.get("spell", "dds") != "dds":
                t.add("evalspell:" + it["spell"])
    if prog.get("rec_builtin"):
        t.add("rec:builtin")
    if len(prog["mods"]) > 1:
        t.add("multi-module")
    if len(prog["pkg"]) > 1:
        t.add("nested-package")
    if case.get("location", "package") != "package":
        t.add("location:" + case["location"])
    st = case["store"]
    t.add("store:" + st["kind"] + ("+cache" if st.get("cache") else ""))
    for op in case["ops"]:
        if op["op"] == "edit":
            t.add("edit:" + op["edit"]["kind"])
        elif op["op"] == "eval":
            t.add("style:" + op.get("style", "eval"))
            for k in (op.get("opts") or {}):
                t.add("opt:" + k)
            if op.get("fail"):
                t.add("fail")
        else:
            t.add("op:" + op["op"])
    return sorted(t)
