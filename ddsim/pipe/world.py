"""The pipeline world: a source tree that is edited, simulated processes that come and go, one store that
outlives them (engine P). Executes an explicit history and evaluates the oracles of several properties."""
import os
import pickle

from ..core.util import DiscardCase, HarnessError, sha
from ..storesim.values import canon
from . import gen, ir
from .cone import Cones
from .proc import SimProcess
from .ref import ref_eval, write_tree


class World:
    def __init__(self, case, root):
        self.case = case
        self.root = root
        self.versions = [case["prog"]]      # IR snapshots; index = version
        self.cur = 0
        self._valid = set()
        self.edit_versions = [0]             # indices of the versions created by edit / revert operations
        self.srcdirs = {}
        self.procs = {}                      # pid -> dict(proc, ver, store, mutations, inst)
        self.ninst = 0
        self.store_spec = dict(case.get("store") or {"kind": "local"})
        self.models = {}                     # store id -> {"stored": set(fp), "table": {path: value}, "path_fp": {}}
        self.log = []
        self.violations = []
        self.probes = {}
        self.obs = []                        # one record per eval/load op
        self.cwd_n = 0
        self.last_ok_value = {}

    # ---- helpers ------------------------------------------------------------------------------
    def probe(self, n, c=1):
        self.probes[n] = self.probes.get(n, 0) + c

    def violate(self, oracle, detail, **kw):
        if sum(1 for v in self.violations if v["oracle"] == oracle) < 3:
            d = {"oracle": oracle, "detail": detail}
            d.update(kw)
            self.violations.append(d)

    def srcdir(self, ver):
        if ver not in self.srcdirs:
            d = os.path.join(self.root, "src", f"v{ver}")
            write_tree(d, ir.render(self.versions[ver]))
            self.srcdirs[ver] = d
        return self.srcdirs[ver]

    def store_id(self, pinfo):
        k = pinfo["store"]["kind"]
        if k == "local":
            return "local:" + pinfo["store"].get("view", "data")
        if k == "memory":
            return f"mem:{pinfo['inst']}"
        return "noop"

    def blob_space(self, pinfo):
        """Blobs are shared by all views of one internal directory."""
        k = pinfo["store"]["kind"]
        if k == "local":
            return "local"
        if k == "memory":
            return f"mem:{pinfo['inst']}"
        return "noop"

    def model(self, sid):
        if sid not in self.models:
            self.models[sid] = {"stored": set(), "table": {}, "path_fp": {}}
        return self.models[sid]

    def full_store_spec(self, spec):
        s = dict(spec)
        if s["kind"] == "local":
            s["internal"] = os.path.join(self.root, "store", "int")
            s["data"] = os.path.join(self.root, "store", s.get("view", "data"))
        return s

    def ensure_proc(self, pid):
        if pid in self.procs and self.procs[pid]["proc"].alive:
            return self.procs[pid]
        prog = self.versions[self.cur]
        self.ninst += 1
        p = SimProcess()
        info = {"proc": p, "ver": self.cur, "store": dict(self.store_spec), "mutations": [], "inst": self.ninst}
        mods = [ir.modname(prog, m) for m in prog["mods"]]
        loc = self.case.get("location", "package")
        main = ir.modname(prog, prog["mods"][0])
        acc = ir.accepted_names(prog)
        if self.case.get("late_accept"):
            own = set(ir.own_accepted_names(prog))
            acc = [n for n in acc if n not in own]   # the program's own package (and the names nested in it) is accepted later by an explicit "accept" operation
            info["accepted"] = False
        self._validate_version(self.cur)
        p.call({"cmd": "init", "srcdir": self.srcdir(self.cur), "accept": acc,
                "store": self.full_store_spec(info["store"]), "modules": mods,
                "options": self.case.get("options", []), "cwd": self.case.get("cwd"), "location": loc,
                "nb_single_cell": self.case.get("nb_single_cell"),
                "main_module": main if loc != "package" else None,
                "main_file": os.path.join(self.srcdir(self.cur), *(prog["pkg"] + [prog["mods"][0] + ".py"]))})
        self.procs[pid] = info
        return info

    def _validate_version(self, ver):
        """A version must import under plain Python (with the dds-free shim) before dds sees it."""
        if ver in self._valid:
            return
        prog = self.versions[ver]
        try:
            ref_eval(self.srcdir(ver), [], modules=[ir.modname(prog, m) for m in prog["mods"]])
        except HarnessError as e:
            if "ImportError" in str(e) or "SyntaxError" in str(e) or "NameError" in str(e):
                raise DiscardCase(f"generated program version {ver} does not import under plain Python: {str(e)[:300]}")
            raise
        self._valid.add(ver)

    def restart(self, pid):
        if pid in self.procs:
            self.procs[pid]["proc"].kill()
            del self.procs[pid]

    def close(self):
        for info in self.procs.values():
            info["proc"].kill()

    # ---- operations ---------------------------------------------------------------------------
    def run(self):
        try:
            for i, op in enumerate(self.case["ops"]):
                self.step(i, op)
        finally:
            self.close()

    def step(self, i, op):
        i = op.get("id", i)
        k = op["op"]
        if k == "edit":
            self.versions.append(gen.apply_edit(self.versions[self.cur], op["edit"]))
            self.cur = len(self.versions) - 1
            self.edit_versions.append(self.cur)
            self.log.append([i, "edit", op["edit"]])
        elif k == "revert":
            to = self.edit_versions[min(op["to"], len(self.edit_versions) - 1)]
            self.versions.append(self.versions[to])
            self.cur = len(self.versions) - 1
            self.edit_versions.append(self.cur)
            self.log.append([i, "revert", to])
            self.probe("revert")
        elif k == "redefine":
            self.do_redefine(i, op)
        elif k == "restart":
            self.restart(op.get("proc", 0))
            self.log.append([i, "restart", op.get("proc", 0)])
        elif k == "switch_store":
            self.store_spec = dict(op["store"])
            for pid, info in self.procs.items():
                if info["proc"].alive:
                    self.ninst += 1
                    info["inst"] = self.ninst
                    info["store"] = dict(self.store_spec)
                    info["proc"].call({"cmd": "set_store", "store": self.full_store_spec(info["store"])})
            self.log.append([i, "switch_store", op["store"]])
        elif k == "mutate":
            info = self.ensure_proc(op.get("proc", 0))
            prog = self.versions[info["ver"]]
            if op["var"] in prog["vars"]:
                v = prog["vars"][op["var"]]
                import copy as _copy

                value = _copy.deepcopy(_pyvalue(v["kind"], op["value"]))
                modn = ir.modname(prog, v["mod"])
                # the memory store keeps the very objects the functions returned: mutating a module-level container in
                # place would also rewrite stored results that alias it (user-code impurity, not a dds matter)
                inplace = bool(op.get("inplace")) and v["kind"] in ("list", "dict") and info["store"]["kind"] != "memory"
                info["proc"].call({"cmd": "mutate", "module": modn, "var": op["var"], "value": value, "inplace": inplace})
                info["mutations"].append((modn, op["var"], value, inplace))
                if inplace:
                    self.probe("inplace_mutation")
                # `from m import V` readers keep the old binding: python semantics, the reference shim sees the same
                self.log.append([i, "mutate", op["var"], repr(value)])
        elif k == "chdir":
            info = self.ensure_proc(op.get("proc", 0))
            self.cwd_n += 1
            d = os.path.join(self.root, f"cwd{self.cwd_n}")
            os.makedirs(d, exist_ok=True)
            info["proc"].call({"cmd": "chdir", "dir": d})
            self.log.append([i, "chdir"])
        elif k == "eval":
            self.do_eval(i, op)
        elif k == "illeval":
            self.do_illeval(i, op)
        elif k == "exteval":
            self.do_exteval(i, op)
        elif k == "accept":
            info = self.ensure_proc(op.get("proc", 0))
            prog = self.versions[info["ver"]]
            info["proc"].call({"cmd": "accept", "names": ir.own_accepted_names(prog)})
            info["accepted"] = True
            self.log.append([i, "accept"])
            self.probe("late_accept")
        elif k == "touch":
            self.ensure_proc(op.get("proc", 0))
        elif k == "load":
            self.do_load(i, op)
        else:
            raise HarnessError(f"unknown op {op}")

    def do_redefine(self, i, op):
        """Notebook only: a later cell defines again a function of the script module with its current text; the rest of
        the process keeps the code it started with."""
        if self.case.get("location") != "notebook":
            return
        info = self.ensure_proc(op.get("proc", 0))
        old, new = self.versions[info["ver"]], self.versions[self.cur]
        fn = op["f"]
        main_mod = old["mods"][0]
        if fn not in old["funcs"] or fn not in new["funcs"]:
            return
        fo, fnw = old["funcs"][fn], new["funcs"][fn]
        if fo["mod"] != main_mod or fnw["mod"] != main_mod or fo["kind"] != fnw["kind"] or fo.get("ill"):
            return
        # module-level path constants (PATH_<fn>, PATH_<fn>_<i>) are not part of the function's cell: the process keeps
        # the ones it started with, so the new text may only refer to constants that exist there with the same value
        if fnw.get("pathform", "lit") != "lit" and (fo.get("pathform", "lit") != fnw["pathform"] or fo.get("path") != fnw.get("path")):
            return
        for k, it in enumerate(fnw["body"]):
            if it["t"] == "keep" and it.get("pathform", "lit") != "lit":
                o_ = fo["body"][k] if k < len(fo["body"]) else None
                if not (o_ and o_["t"] == "keep" and o_.get("pathform", "lit") == it["pathform"] and o_["path"] == it["path"]):
                    return
        hybrid = ir.clone(old)
        hybrid["funcs"][fn] = ir.clone(new)["funcs"][fn]
        # every name the new text refers to must exist in the process (same referenced functions / variables)
        names_old = {(it.get("f"), it.get("name")) for it in fo["body"]}
        for it in fnw["body"]:
            if "f" in it and (it["f"] not in old["funcs"] or old["funcs"][it["f"]]["mod"] != new["funcs"][it["f"]]["mod"]):
                return
            if it["t"] == "var" and (it["name"] not in old["vars"] or (it.get("f"), it.get("name")) not in names_old):
                return
            if it["t"] in ("call", "ho", "keep") and (it.get("f"), it.get("name")) not in names_old:
                return
        text = "\n".join(ir.render_func(hybrid, fn))
        info["proc"].call({"cmd": "cell", "text": text})
        self.versions.append(hybrid)
        info["ver"] = len(self.versions) - 1
        self.log.append([i, "redefine", fn])
        self.probe("notebook_redefinition")

    def cones(self, info, entry=None):
        sid = self.store_id(info)
        m = self.model(sid)
        return Cones(self.versions[info["ver"]], load_fp=lambda p: m["path_fp"].get(p, "absent"), entry=entry)

    def _path_fps(self, info, entry):
        c = self.cones(info, entry)
        return {p: c.fp_node(prod) for p, prod in c.producers().items()}

    def do_exteval(self, i, op):
        """Direct call of a data function defined in a non-accepted module (must be refused)."""
        info = self.ensure_proc(op.get("proc", 0))
        prog = self.versions[info["ver"]]
        mods = prog.get("extmods", ["extlib"])
        em = mods[op.get("m", 0) % len(mods)]
        before = self.store_snapshot(info)
        out = info["proc"].call({"cmd": "eval", "entry": em + ":ext_data", "style": "call", "options": {}})
        after = self.store_snapshot(info)
        self.obs.append({"i": i, "op": "exteval", "module": em, "res": out["res"], "log": out["log"],
                         "snap_before": before, "snap_after": after})
        self.log.append([i, "exteval", em, out["res"][:3], out["log"]])

    def do_illeval(self, i, op):
        """Evaluation of an ill-formed entry point: no reference run (plain execution would not terminate)."""
        info = self.ensure_proc(op.get("proc", 0))
        prog = self.versions[info["ver"]]
        fn = op["entry"]
        if fn not in prog["funcs"]:
            return
        f = prog["funcs"][fn]
        style = op.get("style", "eval")
        if style == "call" and f["kind"] != "data":
            style = "eval"
        entry = ir.modname(prog, f["mod"]) + ":" + fn
        before = self.store_snapshot(info)
        cmd = {"cmd": "eval", "entry": entry, "style": style, "options": {}}
        if op.get("path"):
            cmd.update({"style": "keep", "path": op["path"]})      # driver-level dds.keep(path, f)
        out = info["proc"].call(cmd)
        after = self.store_snapshot(info)
        rec = {"i": i, "op": "illeval", "entry": fn, "style": style, "path": op.get("path"), "res": out["res"], "log": out["log"],
               "expect": op["expect"], "snap_before": before, "snap_after": after,
               "nstore_calls": sum(1 for c in out["calls"] if c[0] == "store_blob"),
               "nsync_calls": sum(1 for c in out["calls"] if c[0] == "sync_paths"), "store": self.store_id(info)}
        self.obs.append(rec)
        self.log.append([i, "illeval", fn, style, out["res"][:3], out["log"]])

    def store_snapshot(self, info):
        """Blobs and committed paths currently in the store (local: directory walk; memory: asked from the process)."""
        k = info["store"]["kind"]
        if k == "local":
            base = os.path.join(self.root, "store")
            blobs = set()
            bdir = os.path.join(base, "int", "blobs")
            if os.path.isdir(bdir):
                names = set(os.listdir(bdir))
                blobs = {n for n in names if not n.endswith(".meta") and ".tmp" not in n}
            paths = {}
            ddir = os.path.join(base, info["store"].get("view", "data"))
            for dp, dns, fns in os.walk(ddir):
                for n in fns + dns:
                    p = os.path.join(dp, n)
                    if os.path.islink(p):
                        paths["/" + os.path.relpath(p, ddir)] = os.path.basename(os.readlink(p))
            return {"blobs": sorted(blobs), "paths": sorted(paths.items())}
        if k == "memory":
            r = info["proc"].call({"cmd": "memsnap"})
            return {"blobs": r["blobs"], "paths": [tuple(x) for x in r["paths"]]}
        return {"blobs": [], "paths": []}

    def do_eval(self, i, op):
        info = self.ensure_proc(op.get("proc", 0))
        prog = self.versions[info["ver"]]
        fn = op["entry"]
        if fn not in prog["funcs"]:
            self.log.append([i, "eval-skipped", fn])
            return
        f = prog["funcs"][fn]
        style = op.get("style", "eval")
        keepcall = None
        if f["kind"] == "target":
            keepcall = gen.driver_keep_call(prog, fn) if style == "keep" else None
            if keepcall is None:
                self.log.append([i, "eval-skipped", fn])
                return
            self.probe("driver_keep_entry")
        elif style == "keep" or (style == "call" and f["kind"] != "data"):
            style = "eval"
        entry = ir.modname(prog, f["mod"]) + ":" + fn
        sid = self.store_id(info)
        bsp = self.blob_space(info)
        m = self.model(sid)
        bm = self.model("blobs:" + bsp)
        rq = {"entry": entry}
        if keepcall is not None:
            rq = {"entry": entry, "style": "keep", "path": keepcall[0], "args": keepcall[1], "kwargs": keepcall[2]}
        (ref,), newtab = ref_eval(self.srcdir(info["ver"]), [rq], table=m["table"],
                                  mutations=info["mutations"],
                                  modules=[ir.modname(prog, mm) for mm in prog["mods"]])
        opts = dict(op.get("opts", {}))
        gfile = None
        if opts.get("dds_export_graph"):
            # one file per evaluation, or (as a user would) the same file for every export of the history
            gname = "graph" if self.case.get("one_graph_file") else f"graph_{i}"
            gfile = os.path.join(self.root, f"{gname}.{opts['dds_export_graph']}")
            opts["dds_export_graph"] = gfile
        cmd = {"cmd": "eval", "entry": entry, "style": style, "options": opts}
        if keepcall is not None:
            cmd.update({"path": keepcall[0], "args": keepcall[1], "kwargs": keepcall[2]})
        if op.get("fail"):
            cmd["fail"] = op["fail"]
        snap_before = self.store_snapshot(info) if op.get("snap") else None
        out = info["proc"].call(cmd)
        snap_after = self.store_snapshot(info) if op.get("snap") else None
        dot = None
        if gfile is not None and os.path.exists(gfile):
            with open(gfile, "rb") as gf:
                dot = gf.read().decode("utf-8", "replace")
        stages = (op.get("opts") or {}).get("dds_stages")
        full = stages is None
        if info.get("accepted") is False:
            # the package is not accepted yet: whatever happens, dds must not run untracked code silently;
            # the record is kept for C14 and no other oracle applies
            self.obs.append({"i": i, "op": "eval", "entry": fn, "style": style, "ver": info["ver"], "store": sid,
                             "ref": ref["res"], "res": out["res"], "log": out["log"], "reflog": ref["log"],
                             "sigs": _sigs(out["calls"]), "pre_accept": True, "opts": {}, "fail": None, "kept": ref["kept"],
                             "fps": {}, "kept_fns": []})
            self.log.append([i, "eval-before-accept", fn, out["res"][:3], out["log"]])
            self._update_stored(info, prog, out, bm, fn)
            if out["res"][0] == "ok":
                self._update_table(m, ref, info, prog, newtab, fn)
            return
        rec = {"i": i, "op": "eval", "entry": fn, "style": style, "ver": info["ver"], "store": sid, "ref": ref["res"],
               "res": out["res"], "log": out["log"], "reflog": ref["log"], "sigs": _sigs(out["calls"]),
               "stored_keys": [c[1] for c in out["calls"] if c[0] == "store_blob"], "same_exc": out["same_exc"],
               "ctx_clean": out["ctx_clean"], "kept": ref["kept"], "opts": op.get("opts", {}), "fail": op.get("fail"),
               "early_loads": ref.get("early_loads", []),
               "inst": info["inst"], "mut": len(info["mutations"]), "snap_before": snap_before, "snap_after": snap_after,
               "nstore_calls": sum(1 for c in out["calls"] if c[0] == "store_blob"),
               "nsync_calls": sum(1 for c in out["calls"] if c[0] == "sync_paths"),
               "kept_fns": sorted(self.cones(info, fn).kept_functions()),
               "fps": self._path_fps(info, fn), "dot": dot}
        self.obs.append(rec)
        self.log.append([i, "eval", fn, style, info["ver"], sid, out["res"][:2], out["log"], rec["sigs"]])
        if op.get("fail") or not full:
            # C10 / C15 evaluate these records themselves; the model is updated from what completed
            self._update_stored(info, prog, out, bm, fn)
            if full is False and out["res"][0] == "ok" and _has_stage(stages, "eval") and _has_stage(stages, "path_commit"):
                self._update_table(m, ref, info, prog, newtab, fn)
            return
        # ---- C09: a path read before it is produced in the same evaluation must be rejected
        if ref.get("early_loads"):
            self.probe("read_before_produce")
            if out["res"][0] == "ok":
                self.violate("C09.order", f"op {i} eval {fn}: path(s) {ref['early_loads']} are loaded before they are produced in the "
                                          f"same evaluation; dds returned {_short(out['res'][1])} instead of rejecting the evaluation")
            elif out["res"][1] != "DDSException":
                self.violate("C09.order", f"op {i} eval {fn}: read-before-produce of {ref['early_loads']} raised {out['res'][1:]} "
                                          f"instead of a DDS error")
            self._update_stored(info, prog, out, bm, fn)
            return
        if ref.get("loads"):
            self.probe("eval_with_load")
            keptp = [kp for (kp, _) in ref["kept"]]
            if any(p in keptp for (p, n) in ref["loads"]):
                self.probe("load_of_path_produced_in_same_eval")
            if any(p not in keptp for (p, n) in ref["loads"]) and ref["res"][0] == "ok":
                self.probe("load_of_path_from_earlier_eval")
        # ---- C01
        if ref["res"][0] == "ok":
            if out["res"][0] != "ok":
                self.violate("C09.value" if ref.get("loads") else "C01.noexc",
                             f"op {i} eval {fn} (v{info['ver']}, {sid}): raised {out['res'][1:]} while plain "
                             f"execution returns {_short(ref['res'][1])}")
            elif out["res"] != ref["res"]:
                self.violate("C09.value" if ref.get("loads") else "C01.value",
                             f"op {i} eval {fn} (v{info['ver']}, {sid}): dds returned {_short(out['res'][1])} "
                             f"plain execution returns {_short(ref['res'][1])}")
        elif ref["res"][0] == "loadmissing":
            self.probe("load_of_never_produced_path")
            if out["res"][0] == "ok":
                self.violate("C09.order", f"op {i} eval {fn}: a load of {ref['res'][1]} before the path was ever produced "
                                          f"returned {_short(out['res'][1])} instead of being rejected")
            elif out["res"][1] != "DDSException":
                self.violate("C09.order", f"op {i} eval {fn}: load of a never produced path raised {out['res'][1:]} "
                                          f"instead of a DDS error")
            return
        else:
            raise HarnessError(f"reference run raised {ref['res']} for generated program")
        # ---- C02
        if bsp != "noop":
            cones = self.cones(info, fn)
            kf = cones.kept_functions()
            executed = [n for n in out["log"] if n in kf]
            reach = [n for n in ref["log"] if n in kf]
            if any(kf[n] in bm["stored"] for n in reach):
                self.probe("stored_node_seen_again")
            for n in sorted(set(executed)):
                if kf[n] in bm["stored"]:
                    self.violate("C09.reexec" if ref.get("loads") else "C02.cone", f"op {i} eval {fn} (v{info['ver']}, {sid}): kept function {n} executed again "
                                             f"although a node with the same dependency cone was executed and stored before",
                                 fn=n)
                if executed.count(n) > 1:
                    self.violate("C02.cone", f"op {i} eval {fn}: kept function {n} executed {executed.count(n)} times in one evaluation",
                                 fn=n)
            if not executed and any(n in kf for n in ref["log"]):
                self.probe("all_cached")
        self._update_stored(info, prog, out, bm, fn)
        if out["res"][0] == "ok":
            self._update_table(m, ref, info, prog, newtab, fn)
            self.last_ok_value[(sid, fn)] = out["res"]

    def _update_stored(self, info, prog, out, bm, entry=None):
        if self.blob_space(info) == "noop":
            return
        cones = self.cones(info, entry)
        kf = cones.kept_functions()
        for n in out["log"]:
            if n.endswith(":end") and n[:-4] in kf:
                bm["stored"].add(kf[n[:-4]])

    def _update_table(self, m, ref, info, prog, newtab, entry=None):
        cones = self.cones(info, entry)
        prods = cones.producers()
        for (p, cv) in ref["kept"]:
            m["path_fp"][p] = cones.fp_node(prods[p]) if p in prods else "driver"
        # table values come from the reference run (program order)
        if self.store_id(info) != "noop":
            m["table"] = newtab

    def do_load(self, i, op):
        pid = op.get("proc", 0)
        if op.get("fresh"):
            pid = "fresh"
            self.restart("fresh")
        info = self.ensure_proc(pid)
        sid = self.store_id(info)
        m = self.model(sid)
        out = info["proc"].call({"cmd": "load", "path": op["path"]})
        exp = m["table"].get(op["path"], _MISSING)
        rec = {"i": i, "op": "load", "path": op["path"], "store": sid, "res": out["res"],
               "expected": None if exp is _MISSING else canon(exp), "fresh": bool(op.get("fresh"))}
        self.obs.append(rec)
        self.log.append([i, "load", op["path"], sid, out["res"][:2], rec["expected"]])
        if sid == "noop":
            return
        if exp is _MISSING:
            if out["res"][0] == "ok":
                self.violate("C04.others", f"op {i} load {op['path']}: path was never committed on {sid} but loads {_short(out['res'][1])}")
            return
        if out["res"][0] != "ok":
            self.violate("C04.load", f"op {i} load {op['path']} on {sid}{' (fresh process)' if op.get('fresh') else ''}: raised {out['res'][1:]} "
                                     f"expected {_short(canon(exp))}", path=op["path"])
        elif out["res"][1] != canon(exp):
            self.violate("C04.load", f"op {i} load {op['path']} on {sid}{' (fresh process)' if op.get('fresh') else ''}: returned {_short(out['res'][1])} "
                                     f"expected {_short(canon(exp))}", path=op["path"])
        if op.get("file") and sid.startswith("local"):
            self.check_file(i, op["path"], exp, sid)

    def check_file(self, i, path, exp, sid):
        data_dir = os.path.join(self.root, "store", sid.split(":", 1)[1])
        loc = os.path.join(data_dir, *[s for s in path.split("/") if s])
        self.probe("file_checked")
        if not os.path.exists(loc):
            self.violate("C04.file", f"op {i}: no file at <data_dir>{path} for committed path {path}", path=path)
            return
        with open(loc, "rb") as f:
            raw = f.read()
        if isinstance(exp, str):
            ok = raw == exp.encode("utf-8")
        elif isinstance(exp, (bytes, bytearray)):
            ok = raw == bytes(exp)
        else:
            try:
                ok = pickle.loads(raw) == exp
            except Exception:  # noqa
                ok = False
        if not ok:
            self.violate("C04.file", f"op {i}: file at <data_dir>{path} does not hold the kept value", path=path)


_MISSING = object()


def _has_stage(stages, name):
    return any(str(s).lower().replace("enum:", "") == name for s in stages)


def _pyvalue(kind, value):
    if kind == "pdict":
        return dict((k, v) for k, v in value)
    if kind == "tuple":
        return tuple(value)
    if kind == "bytes":
        return bytes.fromhex(value)
    if kind == "odict":
        from collections import OrderedDict

        return OrderedDict(value)
    if kind == "path":
        from pathlib import PurePosixPath

        return PurePosixPath(value)
    return value


def _sigs(calls):
    out = None
    for c in calls:
        if c[0] == "sync_paths":
            out = sorted((p, k) for p, k in c[1])
    return out


def _short(s):
    s = str(s)
    return s if len(s) < 300 else s[:290] + f"...({len(s)})"
