"""Simulated process for the pipeline world: a forked child of the zygote serving commands over pipes.

Restart = kill it and fork another one (every in-memory cache of dds is really lost).
"""
import importlib
import os
import pickle
import select
import signal
import struct
import sys
import traceback

from ..core.util import HarnessError, ensure_repo_on_path, quiet_process
from ..storesim.values import canon

TIMEOUT_S = 60.0


def _send(fd, obj):
    data = pickle.dumps(obj, protocol=4)
    data = struct.pack("!I", len(data)) + data
    mv = memoryview(data)
    while mv:
        n = os.write(fd, mv)
        mv = mv[n:]


def _readn(fd, n):
    chunks = []
    while n:
        b = os.read(fd, n)
        if not b:
            return None
        chunks.append(b)
        n -= len(b)
    return b"".join(chunks)


def _recv(fd):
    hdr = _readn(fd, 4)
    if hdr is None:
        return None
    (n,) = struct.unpack("!I", hdr)
    body = _readn(fd, n)
    return None if body is None else pickle.loads(body)


def describe_exc(e):
    code = getattr(e, "error_code", None)
    return ["exc", type(e).__name__, getattr(code, "name", None), str(e)[:400]]


def _capturing_store_cls():
    from dds.store import Store

    class CapturingStore(Store):
        def __init__(self, inner):
            self.inner = inner
            self.calls = []

        def has_blob(self, key):
            r = self.inner.has_blob(key)
            self.calls.append(["has_blob", key, r])
            return r

        def fetch_blob(self, key):
            self.calls.append(["fetch_blob", key])
            return self.inner.fetch_blob(key)

        def store_blob(self, key, blob, codec=None):
            self.calls.append(["store_blob", key])
            return self.inner.store_blob(key, blob, codec)

        def sync_paths(self, paths):
            self.calls.append(["sync_paths", [[str(p), str(k)] for p, k in paths.items()]])
            return self.inner.sync_paths(paths)

        def fetch_paths(self, paths):
            r = self.inner.fetch_paths(paths)
            self.calls.append(["fetch_paths", [[str(p), str(k)] for p, k in r.items()]])
            return r

        def codec_registry(self):
            return self.inner.codec_registry()

    return CapturingStore


class Server:
    """Runs inside the child."""

    def __init__(self):
        self.cap = None
        self.shell = None
        self.location = "package"
        self.nb_single_cell = False
        self.main_alias = {}     # package-style module name -> module object standing in for it (__main__ / notebook)

    def resolve(self, modn):
        if modn in self.main_alias:
            return self.main_alias[modn]
        return importlib.import_module(modn)

    def load_main(self, modn, path):
        """Runs the module file as the __main__ script of this process (what `python m0.py` does)."""
        import types

        with open(path) as f:
            src = f.read()
        mod = types.ModuleType("__main__")
        mod.__file__ = path
        sys.modules["__main__"] = mod
        exec(compile(src, path, "exec"), mod.__dict__)
        self.main_alias[modn] = mod

    def load_notebook(self, modn, path):
        """Runs the module text cell by cell in a real IPython InteractiveShell (no kernel)."""
        from IPython.core.interactiveshell import InteractiveShell

        with open(path) as f:
            src = f.read()
        shell = InteractiveShell.instance()
        self.shell = shell
        cells = [src] if self.nb_single_cell else [c for c in src.split("\n\n\n") if c.strip()]
        for c in cells:
            r = shell.run_cell(c, store_history=True, silent=True)
            if r.error_before_exec or r.error_in_exec:
                raise RuntimeError(f"notebook cell failed: {r.error_before_exec or r.error_in_exec}")
        self.main_alias[modn] = shell.user_module

    def run_cell(self, text):
        r = self.shell.run_cell(text, store_history=True, silent=True)
        if r.error_before_exec or r.error_in_exec:
            raise RuntimeError(f"notebook cell failed: {r.error_before_exec or r.error_in_exec}")

    def set_store(self, spec):
        import dds
        import dds._api as api

        kind = spec["kind"]
        if kind == "local":
            kw = {}
            if spec.get("cache") is not None:
                kw["cache_objects"] = spec["cache"]
            dds.set_store("local", internal_dir=spec["internal"], data_dir=spec["data"], **kw)
        elif kind in ("memory", "noop"):
            kw = {}
            if spec.get("cache") is not None and kind == "memory":
                kw["cache_objects"] = spec["cache"]
            dds.set_store(kind, **kw)
        elif kind == "dbfs":
            from ..storesim.fakedbutils import FakeDbutils

            dds.set_store("dbfs", internal_dir=spec["internal"], data_dir=spec["data"],
                          dbutils=FakeDbutils(spec["root"]), commit_type=spec.get("commit_type"))
        else:
            raise ValueError(spec)
        inner = api._store()
        self.cap = _capturing_store_cls()(inner)
        dds.set_store(self.cap)

    def handle(self, cmd):
        import dds

        k = cmd["cmd"]
        if k == "init":
            self.location = cmd.get("location", "package")
            self.nb_single_cell = bool(cmd.get("nb_single_cell"))
            for (key, value) in cmd.get("options", []):
                dds.set_option(key, value)
            if cmd.get("cwd"):
                os.chdir(cmd["cwd"])
            sys.path.insert(1, cmd["srcdir"])
            for a in cmd["accept"]:
                dds.accept_module(a)
            self.set_store(cmd["store"])
            main = cmd.get("main_module")
            for m in cmd.get("modules", []):
                if m == main and self.location in ("main", "notebook"):
                    continue
                importlib.import_module(m)
            if main and self.location == "main":
                self.load_main(main, cmd["main_file"])
            elif main and self.location == "notebook":
                self.load_notebook(main, cmd["main_file"])
            return ["ok", None]
        if k == "accept":
            for a in cmd["names"]:
                dds.accept_module(a)
            return ["ok", None]
        if k == "cell":
            self.run_cell(cmd["text"])
            return ["ok", None]
        if k == "rawinit":
            if cmd.get("cwd"):
                os.chdir(cmd["cwd"])
            sys.path.insert(1, cmd["srcdir"])
            for a in cmd["accept"]:
                dds.accept_module(a)
            for m in cmd.get("modules", []):
                importlib.import_module(m)
            return ["ok", None]
        if k == "set_store":
            self.set_store(cmd["store"])
            return ["ok", None]
        if k == "reload":
            # the files of the source tree are rewritten under the running interpreter and the modules reloaded
            # (importlib.reload), deepest imports first
            import time as _t

            for rel, text in cmd["files"].items():
                pth = os.path.join(cmd["srcdir"], rel)
                with open(pth, "w") as f:
                    f.write(text)
                st = os.stat(pth)
                os.utime(pth, (st.st_atime, st.st_mtime + 5))      # (coarse clocks: make the change visible)
            importlib.invalidate_caches()
            for m in cmd["modules"]:
                importlib.reload(sys.modules[m])
            return ["ok", None]
        if k == "chdir":
            os.chdir(cmd["dir"])
            return ["ok", None]
        if k == "mutate":
            if cmd.get("inplace"):
                assign_inplace(getattr(self.resolve(cmd["module"]), cmd["var"]), cmd["value"])
            else:
                setattr(self.resolve(cmd["module"]), cmd["var"], cmd["value"])
            return ["ok", None]
        if k == "memsnap":
            inner = self.cap.inner
            while hasattr(inner, "_store"):
                inner = inner._store
            return ["ok", {"blobs": sorted(getattr(inner, "_cache", {}).keys()),
                           "paths": sorted((str(p), str(v)) for p, v in getattr(inner, "_paths", {}).items())}]
        if k in ("eval", "load"):
            su = sys.modules.get("simutil")
            if su is not None:
                del su.LOG[:]
                su.FAIL = None
            del self.cap.calls[:]
            exc_obj = None
            if k == "eval" and cmd.get("fail"):
                su = importlib.import_module("simutil")
                exc_obj = _make_exc(cmd["fail"]["cls"])
                su.FAIL = {"at": cmd["fail"]["at"], "exc": exc_obj}
            same_obj = None
            try:
                if k == "load":
                    v = dds.load(cmd["path"])
                else:
                    modn, fn = cmd["entry"].split(":")
                    f = getattr(self.resolve(modn), fn)
                    style = cmd.get("style", "eval")
                    args = cmd.get("args", [])
                    kwargs = cmd.get("kwargs", {})
                    opts = dict(cmd.get("options", {}))
                    if "dds_stages" in opts and opts["dds_stages"] is not None:
                        opts["dds_stages"] = [_stage(s) for s in opts["dds_stages"]]
                    if style == "eval":
                        v = dds.eval(f, *args, **kwargs, **opts)
                    elif style == "call":
                        v = f(*args, **kwargs)
                    elif style == "keep":
                        v = dds.keep(cmd["path"], f, *args, **kwargs)
                    else:
                        raise ValueError(style)
                res = ["ok", canon(v)]
            except BaseException as e:  # noqa
                res = describe_exc(e)
                same_obj = (e is exc_obj) if exc_obj is not None else None
            finally:
                su = sys.modules.get("simutil")
                if su is not None:
                    su.FAIL = None
            import dds._api as api

            out = {"res": res, "log": list(su.LOG) if su is not None else [], "calls": list(self.cap.calls),
                   "same_exc": same_obj, "ctx_clean": _ctx_clean(api)}
            return ["ok", out]
        raise ValueError(cmd)


def _ctx_clean(api):
    """True / False when the library exposes its module-level evaluation context the way the pinned version does
    (`dds._api._eval_ctx`, None outside an evaluation); None = unknown after an internal refactoring (the behavioural
    oracles - the next evaluation works, twin histories agree - still apply)."""
    marker = object()
    v = getattr(api, "_eval_ctx", marker)
    if v is marker:
        return None
    return v is None


def assign_inplace(obj, new):
    """Makes the existing container equal to `new` while keeping the identity of the container and, where the
    shapes allow, of the containers nested in it (what `PARAMS["weights"]["alpha"] = 10` does in user code)."""
    if isinstance(obj, list) and isinstance(new, list):
        for i in range(min(len(obj), len(new))):
            if type(obj[i]) is type(new[i]) and isinstance(obj[i], (list, dict)):
                assign_inplace(obj[i], new[i])
            else:
                obj[i] = new[i]
        del obj[len(new):]
        obj.extend(new[len(obj):])
    elif isinstance(obj, dict) and isinstance(new, dict):
        items = []
        for k, v in new.items():
            if k in obj and type(obj[k]) is type(v) and isinstance(v, (list, dict)):
                assign_inplace(obj[k], v)
                items.append((k, obj[k]))
            else:
                items.append((k, v))
        # same insertion order as `new` (dds hashes dictionaries in insertion order)
        obj.clear()
        obj.update(items)
    else:
        raise TypeError("in-place assignment needs two lists or two dicts")


def _stage(s):
    if isinstance(s, str) and s.startswith("enum:"):
        import dds

        return dds.ProcessingStage[s[5:]]
    return s


class CustomError(Exception):
    pass


import dataclasses as _dc  # noqa: E402


@_dc.dataclass(frozen=True)
class FrozenError(Exception):
    """An exception whose instances refuse attribute assignment (a frozen dataclass), `__traceback__` included."""
    code: int = 7


class SlotsError(Exception):
    """An exception that rejects new attributes (`e.extra = 1` fails), not the standard ones."""
    __slots__ = ()


def _make_exc(name):
    import builtins

    if name == "CustomError":
        return CustomError("injected user-code failure")
    if name == "FrozenError":
        return FrozenError(7)
    if name == "SlotsError":
        return SlotsError("injected user-code failure")
    if name == "DDSException":
        import dds

        return dds.DDSException("injected user-code failure raised as a DDSException by user code")
    return getattr(builtins, name)("injected user-code failure")


def _child(rfd, wfd):
    code = 0
    try:
        quiet_process()
        ensure_repo_on_path()
        srv = Server()
        while True:
            cmd = _recv(rfd)
            if cmd is None or cmd.get("cmd") == "quit":
                break
            try:
                rep = srv.handle(cmd)
            except BaseException as e:  # noqa
                rep = ["harness", f"{type(e).__name__}: {e}\n{traceback.format_exc()[-2500:]}"]
            _send(wfd, rep)
    except BaseException:  # noqa
        code = 98
    finally:
        os._exit(code)


class SimProcess:
    """Parent-side handle."""

    def __init__(self):
        p2c_r, p2c_w = os.pipe()
        c2p_r, c2p_w = os.pipe()
        sys.stdout.flush()
        pid = os.fork()
        if pid == 0:
            os.close(p2c_w)
            os.close(c2p_r)
            _child(p2c_r, c2p_w)
        os.close(p2c_r)
        os.close(c2p_w)
        self.pid, self.rfd, self.wfd = pid, c2p_r, p2c_w
        self.alive = True

    def call(self, cmd):
        if not self.alive:
            raise HarnessError("call on dead simulated process")
        _send(self.wfd, cmd)
        rl, _, _ = select.select([self.rfd], [], [], TIMEOUT_S)
        if not rl:
            self.kill()
            raise HarnessError(f"simulated process timed out on {cmd.get('cmd')}")
        rep = _recv(self.rfd)
        if rep is None:
            self.kill()
            raise HarnessError(f"simulated process died on {cmd.get('cmd')} {cmd.get('entry')}")
        if rep[0] == "harness":
            raise HarnessError("simulated process: " + rep[1])
        return rep[1]

    def kill(self):
        if not self.alive:
            return
        self.alive = False
        try:
            os.kill(self.pid, signal.SIGKILL)
        except ProcessLookupError:
            pass
        os.waitpid(self.pid, 0)
        for fd in (self.rfd, self.wfd):
            try:
                os.close(fd)
            except OSError:
                pass
