"""dds-free reference: the same files run with a ten-line stand-in for dds ("running the same Python code
without dds"). Executed in its own forked process."""
import importlib
import os
import sys
import types

from ..core.util import fork_call, quiet_process
from ..storesim.values import canon


class RefLoadMissing(Exception):
    pass


def make_shim(table):
    shim = types.ModuleType("dds")
    shim.KEPT = []          # (path, canon value) in program order
    shim.LOADS = []         # (path, number of keeps completed before the load)
    shim.TABLE = table      # path -> value

    def norm(p):
        # a path is its sequence of non-empty segments
        return "/" + "/".join(x for x in p.split("/") if x)

    def keep(path, fun, *a, **kw):
        v = fun(*a, **kw)
        p = norm(os.fspath(path) if not isinstance(path, str) else path)
        shim.TABLE[p] = v
        shim.KEPT.append((p, canon(v)))
        return v

    def eval_(fun, *a, dds_export_graph=None, dds_extra_debug=None, dds_stages=None, **kw):
        return fun(*a, **kw)

    def data_function(path):
        def deco(func):
            import functools

            @functools.wraps(func)
            def wrapper(*a, **kw):
                return keep(path, func, *a, **kw)

            return wrapper

        return deco

    def load(path):
        p = norm(os.fspath(path) if not isinstance(path, str) else path)
        shim.LOADS.append((p, len(shim.KEPT)))
        if p not in shim.TABLE:
            raise RefLoadMissing(p)
        return shim.TABLE[p]

    shim.keep = keep
    shim.eval = eval_
    shim.data_function = data_function
    shim.dds_function = data_function
    shim.load = load
    shim.accept_module = lambda m: None
    shim.whitelist_module = lambda m: None
    shim.set_store = lambda *a, **k: None
    shim.set_option = lambda *a, **k: None
    return shim


def _ref_child(srcdir, requests, table, mutations, modules=()):
    quiet_process()
    shim = make_shim(dict(table))
    sys.modules["dds"] = shim
    sys.path.insert(1, srcdir)
    for m in modules:
        importlib.import_module(m)
    for mut in mutations:
        modn, var, value = mut[:3]
        if len(mut) > 3 and mut[3]:
            from .proc import assign_inplace

            assign_inplace(getattr(importlib.import_module(modn), var), value)
        else:
            setattr(importlib.import_module(modn), var, value)
    out = []
    for rq in requests:
        modn, fn = rq["entry"].split(":")
        mod = importlib.import_module(modn)
        f = getattr(mod, fn)
        su = sys.modules.get("simutil")
        if su is not None:
            del su.LOG[:]
        del shim.KEPT[:]
        del shim.LOADS[:]
        before = dict(shim.TABLE)
        try:
            if rq.get("style") == "keep":
                v = shim.keep(rq["path"], f, *rq.get("args", []), **rq.get("kwargs", {}))
            else:
                v = f(*rq.get("args", []), **rq.get("kwargs", {}))
            res = ["ok", canon(v)]
        except RefLoadMissing as e:
            res = ["loadmissing", str(e)]
            shim.TABLE.clear()
            shim.TABLE.update(before)
        except BaseException as e:  # noqa
            res = ["exc", type(e).__name__, str(e)[:300]]
            shim.TABLE.clear()
            shim.TABLE.update(before)
        # a path read before it is produced in the same evaluation
        early = sorted({p for (p, n) in shim.LOADS if any(kp == p for (kp, _) in shim.KEPT[n:])
                        and not any(kp == p for (kp, _) in shim.KEPT[:n])})
        out.append({"res": res, "log": list(su.LOG) if su is not None else [], "kept": list(shim.KEPT),
                    "loads": list(shim.LOADS), "early_loads": early})
    return out, shim.TABLE


def ref_eval(srcdir, requests, table=None, mutations=(), modules=()):
    """Returns ([{"res", "log", "kept"}...], new path table {path: value})."""
    return fork_call(_ref_child, (srcdir, requests, table or {}, list(mutations), list(modules)), timeout=60)


def write_tree(srcdir, files):
    for rel, text in files.items():
        p = os.path.join(srcdir, rel)
        os.makedirs(os.path.dirname(p), exist_ok=True)
        with open(p, "w") as f:
            f.write(text)
