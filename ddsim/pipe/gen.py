"""Seeded generator of pipeline programs (IR of ir.py) and of edits, driven by a feature dict (swarm style)."""
import copy

from . import ir

VAR_VALUES = {
    "int": [0, 1, 2, 7, -3, 1000],
    "str": ["", "a", "b", "a|b", "é"],
    "float": [0.0, 0.5, -1.5, 2.0, 1.0],
    "list": [[], [1], [1, 2], ["a"], [[1], [2]], [[1], [3]], [{"a": 1}], [{"a": 2}]],
    "dict": [{}, {"a": 1}, {"a": 2}, {"b": 1}, {"a": 1, "b": 2}, {"w": {"x": 1}}, {"w": {"x": 2}}, {"w": [1, 2]}, {"w": [1, 3]}],
    # a plain dict given as a list of pairs (the insertion order is part of the value; replay files sort mapping keys)
    "pdict": [[["a", 1], ["b", 2]], [["b", 2], ["a", 1]], [["a", 1]], [["b", 2], ["a", 1], ["c", 3]], [["c", 3], ["a", 1], ["b", 2]]],
    "bool": [True, False],
    "none": [None],
    "tuple": [[], [1], [1, 2], ["a", 1]],
    "bytes": ["", "00", "6162"],
    "path": ["/x", "/x/y", "rel"],
    "odict": [[], [["a", 1]], [["a", 1], ["b", 2]], [["b", 2], ["a", 1]]],
}
_PARTNERS = [([[1], [2]], [[1], [3]]), ([{"a": 1}], [{"a": 2}]), ({"w": {"x": 1}}, {"w": {"x": 2}}), ({"w": [1, 2]}, {"w": [1, 3]})]


def nested_partner(value):
    """The value of the same shape that differs only inside a nested container (what an in-place update produces)."""
    for a, b in _PARTNERS:
        if value == a:
            return b
        if value == b:
            return a
    return None


CONSERVATIVE_KINDS = ["int", "str", "float", "list", "dict", "pdict"]
ALL_KINDS = list(VAR_VALUES)

# (values of different types that compare and hash equal - True / 1 / 1.0, False / 0 / 0.0 - are deliberate)
LITERALS = [0, 1, 2, 7, -1, "a", "b", "", None, True, False, 0.5, 0.0, 1.0, 2.0, "1", "0"]
SAFE_LITERALS = [1, 2, 7, -1, "a", "b", 0.5]

# (/lib and /bin are symbolic links on the host - /lib -> usr/lib: a dds path is a name, not a file of the host)
PATH_POOL = ["/a", "/b", "/c", "/d/e", "/d/f", "/g/h/i", "/g/h/j", "/k", "/l/m", "/n", "/o/p/q/r", "/s", "/lib/q", "/bin/w/z"]


def default_feat():
    return {
        "nmods": 1, "depth": 1, "accept": 1, "decoys": 0, "nfuncs": 4, "nvars": 2,
        "var_kinds": list(CONSERVATIVE_KINDS),
        "forms": ["direct"], "varforms": ["direct"],
        "ho": False, "ext": False, "targets": True, "rt_args": False, "defaults": False, "kwargs": False,
        "multiline": False, "loads": False, "pathvars": False, "ret_kinds": ["tuple"], "literals": "safe",
        "end_markers": True, "share": 0.3,
    }


def swarm_feat(cfg, avoid=()):
    """Draws a feature mix. Every feature is off in a fair share of runs. Features named by known findings
    (`avoid`) are only enabled in a small stratum of runs so that they do not mask the rest of the space."""
    f = _swarm_feat(cfg)
    known_stratum = cfg.random() < 0.06
    strict = [a[1:] for a in avoid if a.startswith("!")]
    own = [a for a in avoid if not a.startswith("!")]
    f["avoid"] = strict + ([] if known_stratum else own)
    f["known_stratum"] = known_stratum and bool(own)
    for a in f["avoid"]:
        if a.startswith("varform:"):
            f["varforms"] = [x for x in f["varforms"] if x != a.split(":")[1]]
        if a.startswith("var:"):
            f["var_kinds"] = [x for x in f["var_kinds"] if x != a.split(":")[1]] or ["int"]
        if a.startswith("callform:"):
            f["forms"] = [x for x in f["forms"] if x != a.split(":")[1]]
        if a == "multiline":
            f["multiline"] = False
        if a == "arg:rt":
            f["rt_args"] = False
        if a == "default":
            f["defaults"] = False
        if a == "item:ho":
            f["ho"] = False
    return f


def _swarm_feat(cfg):
    f = default_feat()
    f["nmods"] = cfg.choice([1, 1, 2, 3])
    f["depth"] = cfg.choice([1, 1, 2, 3])
    f["accept"] = cfg.randint(1, f["depth"])
    f["nfuncs"] = cfg.randint(3, 8)
    f["nvars"] = cfg.randint(0, 5)
    kinds = [k for k in CONSERVATIVE_KINDS if cfg.random() < 0.7] or ["int"]
    if cfg.random() < 0.5:
        # bytes globals are refused loudly by dds (coded TYPE_NOT_SUPPORTED error): outside the supported subset
        kinds += [k for k in ALL_KINDS if k not in CONSERVATIVE_KINDS and k != "bytes" and cfg.random() < 0.4]
    f["var_kinds"] = kinds
    f["literals"] = cfg.choice(["safe", "safe", "all"])
    f["forms"] = ["direct"] + [x for x in ["from", "alias", "attr", "pkgattr"] if cfg.random() < 0.5]
    f["varforms"] = ["direct"] + [x for x in ["from", "attr"] if cfg.random() < 0.4]
    f["ho"] = cfg.random() < 0.3
    f["ext"] = cfg.random() < 0.4
    f["targets"] = cfg.random() < 0.8
    f["rt_args"] = cfg.random() < 0.5
    f["defaults"] = cfg.random() < 0.5
    f["kwargs"] = cfg.random() < 0.5
    f["multiline"] = cfg.random() < 0.3
    f["pathvars"] = cfg.random() < 0.3
    f["ret_kinds"] = ["tuple"] + (["str", "bytes"] if cfg.random() < 0.3 else [])
    f["classes"] = cfg.random() < 0.35
    f["wraps"] = cfg.random() < 0.5
    f["rtcalls"] = cfg.random() < 0.6
    f["rec_builtin"] = cfg.random() < 0.4
    f["joins"] = cfg.random() < 0.4
    f["ctext"] = cfg.random() < 0.3
    f["threadkeeps"] = cfg.random() < 0.12
    f["comps"] = cfg.random() < 0.15
    f["bshadows"] = cfg.random() < 0.12
    f["threads"] = cfg.random() < 0.2
    f["tmpl"] = cfg.random() < 0.15
    f["lazy"] = cfg.random() < 0.12
    f["phelpers"] = cfg.random() < 0.2
    f["pathspell"] = cfg.random() < 0.15
    f["shadows"] = cfg.random() < 0.3
    f["vardefaults"] = f["defaults"] and cfg.random() < 0.4
    if f["vardefaults"] and cfg.random() < 0.7:
        f["rt_args"] = True
    # layout stratum: kept calls with mixed run-time / literal arguments over several lines that start on the line
    # of the previous statement (features that only matter together)
    f["layout"] = cfg.random() < 0.12
    if f["layout"]:
        f["multiline"] = f["joins"] = f["rt_args"] = f["targets"] = True
    f["share"] = cfg.choice([0.0, 0.3, 0.6])
    return f


def gen_program(rng, feat):
    nm = feat["nmods"]
    mods = [f"m{i}" for i in range(nm)]
    pkg = ["pk"] + [f"s{i}" for i in range(feat["depth"] - 1)]
    n = feat["nfuncs"]
    names = [f"f{i}" for i in range(n)]
    # non-decreasing module index with function index (imports stay acyclic)
    midx = sorted(rng.randrange(nm) for _ in range(n))
    paths = list(PATH_POOL)
    rng.shuffle(paths)
    funcs = {}
    for i, fn in enumerate(names):
        if i == 0:
            kind = "plain"
        else:
            kinds = ["plain", "data", "data"] + (["target", "target"] if feat["targets"] else []) + \
                (["class"] if feat.get("classes") else [])
            kind = rng.choice(kinds)
        f = {"mod": mods[midx[i]], "kind": kind, "params": [], "ver": 1, "ret": rng.choice(feat["ret_kinds"]),
             "pad": 0, "body": [], "comment": 0, "end": bool(feat.get("end_markers"))}
        if kind == "class":
            f["ret"] = "tuple"
        if kind == "plain" and i > 0 and feat.get("phelpers") and rng.random() < 0.4:
            # a plain helper with one parameter: its callers pass a local (a call with a run-time argument that is
            # not a keep); its own kept calls bind literals only
            f["params"] = [["x", ir.NODEFAULT]]
            f["phelper"] = True
        if f["ret"] == "str":
            f["eol"] = rng.choice(["", "", "\r\n", "\r", "\n", "a\r\nb\rc\n"])
        if kind == "data":
            f["path"] = paths.pop()
            if feat["pathvars"] and rng.random() < 0.4:
                f["pathform"] = rng.choice(["var", "var", "obj"])
            if feat["defaults"] and rng.random() < 0.3:
                # a data function may have parameters as long as all of them have defaults (it is called without arguments)
                f["params"] = [[f"a{k}", _lit(rng, feat)] for k in range(rng.randint(1, 2))]
        if kind == "target":
            np_ = rng.randint(1, 3)
            if feat.get("layout") or feat.get("vardefaults"):
                np_ = max(np_, 2)
            params = []
            seen_default = False
            for k in range(np_):
                if feat["defaults"] and (seen_default or rng.random() < 0.5) and not (feat.get("vardefaults") and k == 0):
                    params.append([f"a{k}", _lit(rng, feat)])
                    seen_default = True
                else:
                    params.append([f"a{k}", ir.NODEFAULT])
            f["params"] = params
        funcs[fn] = f
    if nm > 1 and funcs["f0"]["ret"] != "tuple":
        funcs["f0"]["ret"] = "tuple"
    # variables: a variable lives in a module >= the modules of its readers
    vars_ = {}
    for k in range(feat["nvars"]):
        kind = rng.choice(feat["var_kinds"])
        vars_[f"V{k}"] = {"mod": mods[rng.randrange(nm)], "kind": kind, "value": rng.choice(VAR_VALUES[kind])}
    if feat.get("vardefaults"):
        # some defaults are a module variable of the same module (evaluated when the function is defined)
        for fn in names:
            f = funcs[fn]
            same = [v for v in sorted(vars_) if vars_[v]["mod"] == f["mod"]]
            for prm in f["params"]:
                if prm[1] != ir.NODEFAULT and same and rng.random() < 0.5:
                    prm[1] = {"$var": rng.choice(same)}
            if f["kind"] == "target" and same and len(f["params"]) > 1 and rng.random() < 0.7:
                f["params"][-1][1] = {"$var": rng.choice(same)}
    prog = {"rec_builtin": bool(feat.get("rec_builtin")),
            "pkg": pkg, "accept": feat["accept"], "decoys": feat["decoys"], "mods": mods, "vars": vars_,
            "funcs": funcs, "order": list(names), "extra": {}, "ext": {"EXTV": 1, "ext_ver": 1}}
    rng.shuffle(prog["order"])
    # wiring
    def caller_for(j):
        # a class is always context-dependent in dds (its constructor arguments are never analysed): kept calls,
        # data functions and loads inside methods would get one signature per call site; methods therefore only
        # read variables and call plain helpers / other classes
        kept = funcs[names[j]]["kind"] in ("target", "data")
        cands = [i for i in range(0, j) if not (kept and funcs[names[i]]["kind"] == "class")]
        if funcs[names[j]]["kind"] == "target":
            # a helper with a parameter is context-dependent like a class: a keep call inside it would get one signature
            # per call site (the same path kept twice in one evaluation when two callers share the helper)
            cands = [i for i in cands if not funcs[names[i]].get("phelper")] or [0]
        return rng.choice(cands)

    for j in range(1, n):
        i = caller_for(j)
        _add_ref(prog, names[i], names[j], rng, feat, paths)
        if funcs[names[j]]["kind"] != "target" and rng.random() < feat["share"]:
            i2 = caller_for(j)
            if i2 != i:
                _add_ref(prog, names[i2], names[j], rng, feat, paths)
    # variable reads, ext references
    for fn in names:
        f = funcs[fn]
        mi = mods.index(f["mod"])
        readable = [v for v in sorted(vars_) if mods.index(vars_[v]["mod"]) >= mi]
        for _ in range(rng.choice([0, 1, 1, 2])):
            if readable:
                v = rng.choice(readable)
                form = "direct" if vars_[v]["mod"] == f["mod"] else rng.choice(
                    [x for x in feat["varforms"] if x != "direct"] or ["from"])
                item = {"t": "var", "name": v, "form": form}
                if vars_[v]["kind"] in ("dict", "pdict", "odict") and rng.random() < 0.4:
                    item["keys"] = True         # the function looks at the order of the keys: list(V)
                f["body"].insert(rng.randrange(len(f["body"]) + 1), item)
        if feat["ext"] and rng.random() < 0.3:
            f["body"].insert(rng.randrange(len(f["body"]) + 1), {"t": rng.choice(["ext", "extvar"])})
    if feat.get("shadows") and nm > 1:
        # name collisions across modules: a helper function of module A named like a tracked variable of module B
        # (A never binds the variable's name otherwise)
        for v in sorted(vars_):
            if rng.random() < 0.6:
                okmods = [m for m in mods if m != vars_[v]["mod"] and not any(
                    it["t"] == "var" and it["name"] == v for fn in ir.funcs_in(prog, m) for it in funcs[fn]["body"])]
                cands = [fn for fn in names if funcs[fn]["mod"] in okmods and funcs[fn]["kind"] != "class"]
                if cands:
                    f = funcs[rng.choice(cands)]
                    f["body"].insert(rng.randrange(len(f["body"]) + 1), {"t": "shadow", "name": v})
    if feat.get("ctext"):
        for fn in names:
            if funcs[fn]["kind"] != "class":
                funcs[fn]["ctext"] = 1
    if feat.get("comps"):
        for fn in names:
            f = funcs[fn]
            if f["kind"] == "class":
                continue
            free = [v for v in sorted(vars_) if vars_[v]["mod"] == f["mod"]
                    and not any(it["t"] == "var" and it["name"] == v for it in f["body"])
                    and not any(ir.default_var(d) == v for (_, d) in f["params"])]
            if free and rng.random() < 0.4:
                f["body"].insert(rng.randrange(len(f["body"]) + 1), {"t": "comp", "name": rng.choice(free)})
    if feat.get("bshadows"):
        # module-level helpers named like builtins, called by their bare name
        for fn in names:
            if funcs[fn]["kind"] != "class" and rng.random() < 0.3:
                funcs[fn]["body"].insert(rng.randrange(len(funcs[fn]["body"]) + 1),
                                         {"t": "shadow", "name": rng.choice(ir.BUILTIN_NAMES)})
    if feat.get("tmpl"):
        for fn in names:
            if rng.random() < 0.35:
                funcs[fn]["tmpl"] = {"n": 1, "style": rng.choice(["triple", "triple", "esc", "plain"])}
    if feat.get("lazy"):
        for fn in names:
            if funcs[fn]["kind"] != "class" and rng.random() < 0.3:
                funcs[fn]["body"].insert(rng.randrange(len(funcs[fn]["body"]) + 1), {"t": "lazy"})
    if feat.get("loads"):
        _add_loads(prog, rng, feat)
        if feat.get("threads"):
            _thread_loads(prog, rng)
    _fix_rt_refs(prog, rng, feat)
    if feat.get("threadkeeps"):
        _thread_keeps(prog, rng)
    if feat.get("pathspell"):
        # the same path written in another way (trailing / doubled / leading separator)
        for f in funcs.values():
            for it in f["body"]:
                if it["t"] in ("load", "keep") and it.get("pathform", "lit") == "lit" and rng.random() < 0.4:
                    it["pspell"] = rng.choice(["trail", "dbl", "lead"])
    if feat.get("joins"):
        # some kept calls start on the line of the previous statement
        for f in funcs.values():
            for i, it in enumerate(f["body"]):
                if it["t"] == "keep" and rng.random() < (0.9 if feat.get("layout") else 0.5):
                    it["join"] = True
                    if feat.get("layout") and i > 0 and f["body"][i - 1]["t"] in ("var", "ext", "extvar"):
                        # the line the keep starts on holds a call: swap in an earlier call statement if there is one
                        # (locals are renamed by position: run-time expressions are re-pointed below)
                        js = [j for j in range(i - 1) if f["body"][j]["t"] in ("call", "ho", "shadow")]
                        if js:
                            j = rng.choice(js)
                            f["body"][j], f["body"][i - 1] = f["body"][i - 1], f["body"][j]
    return prog


def _thread_loads(prog, rng):
    for f in prog["funcs"].values():
        for it in f["body"]:
            if it["t"] == "load" and rng.random() < 0.4:
                it["thread"] = True


def _thread_keeps(prog, rng):
    for f in prog["funcs"].values():
        for it in f["body"]:
            if it["t"] == "keep" and not it.get("multiline") and rng.random() < 0.3:
                it["thread"] = True


def _deep_plain(prog):
    """Plain (non-kept, non-class) functions called by another plain function that is itself called by something:
    a load placed there sits two or more non-kept calls below the kept function (or entry) it belongs to."""
    funcs = prog["funcs"]

    def plain(n):
        return funcs[n]["kind"] not in ("class", "data") and not funcs[n].get("path")

    callers = {}
    for n in sorted(funcs):
        for it in funcs[n]["body"]:
            if it["t"] in ("call", "ho") and it.get("f") in funcs:
                callers.setdefault(it["f"], set()).add(n)
    kept_targets = {it["f"] for n in funcs for it in funcs[n]["body"] if it["t"] == "keep"}
    out = []
    for n in sorted(funcs):
        if not plain(n) or n in kept_targets:
            continue
        for c in sorted(callers.get(n, ())):
            if plain(c) and c not in kept_targets and callers.get(c):
                out.append(n)
                break
    return out


def _add_loads(prog, rng, feat):
    """dds.load items at seeded placements: the loaded path may be produced earlier or later in the same
    evaluation, by another entry point (an earlier evaluation), or by nothing at all."""
    names = sorted(prog["funcs"])
    paths = all_paths(prog)
    nloads = rng.choice([1, 1, 2, 3])
    deep = _deep_plain(prog) if feat.get("deep_loads") else []
    if feat.get("deep_loads") and not deep:
        # no chain of plain calls in this program: one is added below a kept function (kept -> f90 -> f91)
        hosts = [n for n in names if prog["funcs"][n]["kind"] in ("data", "target") and not prog["funcs"][n].get("ill")]
        if hosts:
            host = rng.choice(hosts)
            mod = prog["funcs"][host]["mod"]
            for hn in ("f90", "f91"):
                prog["funcs"][hn] = {"mod": mod, "kind": "plain", "params": [], "ver": 1, "ret": "tuple", "pad": 0,
                                     "body": [], "comment": 0, "end": bool(feat.get("end_markers"))}
                prog["order"].append(hn)
            prog["funcs"]["f90"]["body"].append({"t": "call", "f": "f91", "form": "direct"})
            hb = prog["funcs"][host]["body"]
            hb.insert(rng.randrange(len(hb) + 1), {"t": "call", "f": "f90", "form": "direct"})
            deep = ["f91"]
    for _ in range(nloads):
        fn = rng.choice([n for n in names if prog["funcs"][n]["kind"] != "class"])
        if deep and rng.random() < 0.6:
            # a load two or more plain calls below the kept function that owns it (seeded change C18g)
            fn = rng.choice(deep)
        f = prog["funcs"][fn]
        own = {f.get("path")} | {it["path"] for it in f["body"] if it["t"] == "keep"}
        cand = [p for p in paths if p not in own]
        r = rng.random()
        if r < feat.get("p_load_never", 0.1) or not cand:
            p = "/never/produced"
        else:
            p = rng.choice(cand)
        pos = rng.randrange(len(f["body"]) + 1)
        f["body"].insert(pos, {"t": "load", "path": p})
        if rng.random() < 0.3:
            # the same path loaded a second time in the same function
            f["body"].insert(rng.randrange(pos + 1, len(f["body"]) + 1), {"t": "load", "path": p})


def _lit(rng, feat):
    return rng.choice(SAFE_LITERALS if feat.get("literals", "safe") == "safe" else LITERALS)


def _add_ref(prog, caller, callee, rng, feat, paths):
    funcs = prog["funcs"]
    g = funcs[callee]
    c = funcs[caller]
    same = g["mod"] == c["mod"]
    form = "direct" if same else rng.choice([x for x in feat["forms"] if x != "direct"] or ["from"])
    if g["kind"] == "target":
        lay = bool(feat.get("layout"))
        it = {"t": "keep", "path": paths.pop(), "f": callee, "args": [],
              "multiline": feat["multiline"] and rng.random() < (0.9 if lay else 0.5)}
        if feat["pathvars"] and rng.random() < 0.3:
            it["pathform"] = rng.choice(["var", "var", "obj"])
        kwmode = False
        for (pn, d) in g["params"]:
            has_default = d != ir.NODEFAULT
            if has_default and rng.random() < (0.75 if ir.default_var(d) else 0.4):
                kwmode = True       # omitted: later parameters must be keyword or omitted
                continue
            rt = feat["rt_args"] and rng.random() < (0.7 if any(ir.default_var(d2) for (_, d2) in g["params"]) else 0.4)
            if lay and len(g["params"]) > 1:
                rt = False      # (the last bound argument becomes the run-time one, below)
            if c.get("phelper"):
                rt = False
            if kwmode or (feat["kwargs"] and rng.random() < 0.3):
                kwmode = True
                it["args"].append({"k": "kwrt", "n": pn, "e": "?"} if rt else {"k": "kw", "n": pn, "v": _lit(rng, feat)})
            else:
                it["args"].append({"k": "rt", "e": "?"} if rt else {"k": "lit", "v": _lit(rng, feat)})
        if lay and len(it["args"]) > 1 and not c.get("phelper"):
            # literal arguments first, the run-time one on the last line of the call
            a = it["args"][-1]
            if a["k"] == "lit":
                it["args"][-1] = {"k": "rt", "e": "?"}
            elif a["k"] == "kw":
                it["args"][-1] = {"k": "kwrt", "n": a["n"], "e": "?"}
        c["body"].append(it)
    elif g["kind"] == "class":
        c["body"].append({"t": "call", "f": callee, "form": form if form in ("direct", "from", "alias") else "from",
                          "carg": _lit(rng, feat)})
    elif g["kind"] == "data":
        c["body"].append({"t": "call", "f": callee, "form": form})
    elif g.get("phelper"):
        c["body"].append({"t": "call", "f": callee, "form": form, "rtarg": "?"})
    else:
        if feat.get("wraps") and rng.random() < 0.3 and form in ("direct", "from", "alias"):
            c["body"].append({"t": "call", "f": callee, "form": form, "wrap": rng.choice(["kw", "pos", "chain", "hokw"])})
        elif feat["ho"] and rng.random() < 0.25:
            # higher-order references are only discovered for plain names (changelog GH-133), not `module.f`
            c["body"].append({"t": "ho", "f": callee, "form": form if form in ("direct", "from", "alias") else "from"})
        else:
            c["body"].append({"t": "call", "f": callee, "form": form})


def _fix_rt_refs(prog, rng, feat):
    """Run-time argument expressions refer to an earlier local of the caller or to one of its parameters;
    when neither exists the argument becomes a literal."""
    for fn, f in prog["funcs"].items():
        for i, it in enumerate(f["body"]):
            if it["t"] == "call" and it.get("rtarg") is not None:
                avail = [f"r{j}" for j in range(i)] + [p for (p, _) in f["params"]]
                it["rtarg"] = rng.choice(avail) if avail else repr(_lit(rng, feat))
            if it["t"] != "keep":
                continue
            avail = [f"r{j}" for j in range(i)] + [p for (p, _) in f["params"]]
            mods = prog["mods"]
            helpers = [h for h, hf in sorted(prog["funcs"].items()) if hf["kind"] == "plain" and not hf.get("ill") and not hf["params"]
                       and int(h[1:]) > int(fn[1:]) and h != it["f"] and mods.index(hf["mod"]) >= mods.index(f["mod"])
                       and not _contains_keeps(prog, h)] if feat.get("rtcalls") and fn[1:].isdigit() else []
            for a in it["args"]:
                if a["k"] in ("rt", "kwrt"):
                    if helpers and rng.random() < 0.7:
                        h = rng.choice(helpers)
                        if a["k"] == "rt":
                            a.clear()
                            a.update({"k": "rtcall", "f": h})
                        else:
                            n_ = a["n"]
                            a.clear()
                            a.update({"k": "kwrtcall", "n": n_, "f": h})
                        continue
                    if avail:
                        a["e"] = rng.choice(avail)
                    else:
                        v = _lit(rng, feat)
                        if a["k"] == "rt":
                            a.clear()
                            a.update({"k": "lit", "v": v})
                        else:
                            n = a["n"]
                            a.clear()
                            a.update({"k": "kw", "n": n, "v": v})


def _contains_keeps(prog, fn, seen=None):
    """True when fn or a plain function it calls keeps / calls data functions / loads (used to keep argument
    expressions free of kept nodes: a helper called inside an argument list must be an ordinary function)."""
    seen = seen or set()
    if fn in seen:
        return False
    seen.add(fn)
    for it in prog["funcs"][fn]["body"]:
        if it["t"] in ("keep", "load"):
            return True
        if "f" in it:
            g = prog["funcs"][it["f"]]
            if g["kind"] in ("data", "target") or _contains_keeps(prog, it["f"], seen):
                return True
    return False


def renumber_rt(prog):
    """After body items were removed or inserted, run-time expressions that point past their position are
    re-pointed to the closest earlier local (or turned into literals)."""
    for fn, f in prog["funcs"].items():
        for i, it in enumerate(f["body"]):
            x = it.get("rtarg") if it["t"] == "call" else None
            if isinstance(x, str) and x.startswith("r") and x[1:].isdigit() and int(x[1:]) >= i:
                it["rtarg"] = f"r{i - 1}" if i > 0 else ([p for (p, _) in f["params"]] or ["1"])[0]
            if it["t"] != "keep":
                continue
            params = [p for (p, _) in f["params"]]
            for a in it["args"]:
                if a["k"] in ("rt", "kwrt"):
                    e = a["e"]
                    if e in params:
                        continue
                    if e.startswith("r") and e[1:].isdigit() and int(e[1:]) < i:
                        continue
                    if i > 0:
                        a["e"] = f"r{i - 1}"
                    elif params:
                        a["e"] = params[0]
                    else:
                        if a["k"] == "rt":
                            a.clear()
                            a.update({"k": "lit", "v": 1})
                        else:
                            n = a["n"]
                            a.clear()
                            a.update({"k": "kw", "n": n, "v": 1})


def entries(prog):
    """Functions that can be evaluated from the driver: zero-parameter plain or data functions."""
    return [fn for fn in sorted(prog["funcs"]) if prog["funcs"][fn]["kind"] in ("plain", "data")
            and not prog["funcs"][fn].get("ill") and all(d != ir.NODEFAULT for (_, d) in prog["funcs"][fn]["params"])]


def _ill_fn(prog, name, mod, kind="plain", params=None, path=None):
    f = {"mod": mod, "kind": kind, "params": params or [], "ver": 1, "ret": "tuple", "pad": 0, "body": [],
         "comment": 0, "end": True, "ill": True}
    if path:
        f["path"] = path
    prog["funcs"][name] = f
    prog["order"].append(name)
    return f


def add_ill(prog, rng, kind, tag, avoid=()):
    """Adds an ill-formed entry point (never referenced by the well-formed functions) and returns
    (entry name, expected DDS error code). All choices are materialised in the IR."""
    mod = rng.choice(prog["mods"])
    pre = f"b{tag}"
    entry = pre + "e"
    ekind = rng.choice(["plain", "plain", "data"])
    e = _ill_fn(prog, entry, mod, ekind, path=f"/ill{tag}/entry" if ekind == "data" else None)
    depth = rng.choice([0, 0, 1, 2])
    # chain of helpers between the entry and the offending construct
    cur = entry
    for d in range(depth):
        hn = f"{pre}h{d}"
        hk = rng.choice(["plain", "data"])
        _ill_fn(prog, hn, mod, hk, path=f"/ill{tag}/h{d}" if hk == "data" else None)
        prog["funcs"][cur]["body"].append({"t": "call", "f": hn, "form": "direct"})
        cur = hn
    host = prog["funcs"][cur]
    if kind == "overlap":
        base = f"/ov{tag}"
        segs = ["a", "b", "ab", "c"]
        s0 = rng.choice(segs)
        s1 = rng.choice(segs)
        deep = rng.choice([1, 1, 2])
        short = f"{base}/{s0}"
        long_ = short + "/" + "/".join([s1] * deep)
        extras = [f"{base}/{x}" for x in segs if x != s0] + [f"/ow{tag}", f"{base}{s0}", f"{base}/{s0}{s1}"]
        rng.shuffle(extras)
        paths = [short, long_] + extras[: rng.choice([0, 1, 2])]
        rng.shuffle(paths)
        sub = None
        for k, pth in enumerate(paths):
            ln = f"{pre}l{k}"
            _ill_fn(prog, ln, mod, "target", params=[["a", NODEFAULT_]])
            where = host
            r = rng.random()
            if r < 0.3 and sub is None:
                # one further nesting level: a plain helper called from the host holds this keep
                sn = f"{pre}s"
                sub = _ill_fn(prog, sn, mod, "plain")
                host["body"].append({"t": "call", "f": sn, "form": "direct"})
                where = sub
            elif r < 0.5 and sub is not None:
                where = sub
            where["body"].append({"t": "keep", "path": pth, "f": ln, "args": [{"k": "lit", "v": k}]})
        return entry, "OVERLAPPING_PATH"
    if kind == "cycle":
        n = rng.choice([1, 2, 2, 3, 4])
        names = [f"{pre}c{k}" for k in range(n)]
        for nm in names:
            _ill_fn(prog, nm, mod, "target", params=[["a", 0]])
        host["body"].append({"t": "call", "f": names[0], "form": "direct"})
        for k, nm in enumerate(names):
            nxt = names[(k + 1) % n]
            ek = rng.choice(["call", "call", "keep", "ho", "method"])
            if ek == "ho" and n == 1 and "cycle:self-ho" in avoid:
                ek = "call"
            if ek == "method":
                # the cycle goes through a method: nm instantiates a class whose method calls the next function
                kn = f"{pre}k{k}"
                kf = _ill_fn(prog, kn, mod, "class")
                kf["end"] = False
                kf["body"].append({"t": "call", "f": nxt, "form": "direct"})
                prog["funcs"][nm]["body"].append({"t": "call", "f": kn, "form": "direct", "carg": 1})
            elif ek == "call":
                prog["funcs"][nm]["body"].append({"t": "call", "f": nxt, "form": "direct"})
            elif ek == "ho":
                prog["funcs"][nm]["body"].append({"t": "ho", "f": nxt, "form": "direct"})
            else:
                prog["funcs"][nm]["body"].append({"t": "keep", "path": f"/cy{tag}/{k}", "f": nxt,
                                                  "args": [{"k": "lit", "v": 1}]})
        return entry, "CIRCULAR_CALL"
    if kind == "evalineval":
        gn = f"{pre}g"
        _ill_fn(prog, gn, mod, "plain")
        # how the module spells dds.eval: attribute of the package, the bare name (which shadows the builtin),
        # an alias of the function or an alias of the package
        host["body"].append({"t": "eval", "f": gn, "form": "direct", "spell": rng.choice(["dds", "dds", "bare", "alias", "mod"])})
        return entry, "EVAL_IN_EVAL"
    raise ValueError(kind)


NODEFAULT_ = ir.NODEFAULT


def keep_entries(prog):
    """Kept targets whose (unique) keep site binds every parameter statically: the driver can issue the same
    dds.keep(path, target, values...) directly."""
    from .cone import Cones

    c = Cones(prog)
    out = []
    for fn in sorted(prog["funcs"]):
        f = prog["funcs"][fn]
        if f["kind"] != "target" or f.get("ill"):
            continue
        site = c.keep_site(fn)
        if site is not None and c.static_binding(*site) is not None:
            out.append(fn)
    return out


def driver_keep_call(prog, target):
    """(path, args, kwargs) of the driver-level dds.keep equivalent to the target's static keep site, or None."""
    from .cone import Cones

    c = Cones(prog)
    site = c.keep_site(target)
    if site is None or c.static_binding(*site) is None:
        return None
    it = prog["funcs"][site[0]]["body"][site[1]]
    args, kwargs = [], {}
    for a in it["args"]:
        if a["k"] == "lit":
            args.append(a["v"])
        elif a["k"] == "kw":
            kwargs[a["n"]] = a["v"]
        else:
            return None
    return it["path"], args, kwargs


def reachable(prog, root):
    seen, stack = set(), [root]
    while stack:
        f = stack.pop()
        if f in seen or f not in prog["funcs"]:
            continue
        seen.add(f)
        for it in prog["funcs"][f]["body"]:
            if "f" in it:
                stack.append(it["f"])
            for a in it.get("args", []):
                if a.get("f"):
                    stack.append(a["f"])
    return seen


# ---------------------------------------------------------------------------------------------
# edits: explicit, self-contained IR transforms; an edit that does not apply is a no-op


def gen_edit(rng, prog, kinds):
    kinds = list(kinds)
    rng.shuffle(kinds)
    names = sorted(prog["funcs"])
    for k in kinds:
        if k == "var" and prog["vars"]:
            v = rng.choice(sorted(prog["vars"]))
            bound = sorted({ir.default_var(d) for f in prog["funcs"].values() for (_, d) in f["params"] if ir.default_var(d)})
            if bound and rng.random() < 0.5:
                v = rng.choice(bound)       # a variable that is the default value of a parameter
            kind = prog["vars"][v]["kind"]
            choices = [x for x in VAR_VALUES[kind] if x != prog["vars"][v]["value"]]
            if choices:
                return {"kind": "var", "name": v, "value": rng.choice(choices)}
        if k == "ver":
            return {"kind": "ver", "f": rng.choice(names)}
        if k == "comment":
            return {"kind": "comment", "f": rng.choice(names)}
        if k == "lit":
            sites = [(fn, i, j) for fn in names for i, it in enumerate(prog["funcs"][fn]["body"]) if it["t"] == "keep"
                     for j, a in enumerate(it["args"]) if a["k"] in ("lit", "kw")]
            if sites:
                # half of the time: a literal next to run-time arguments (the call-site context decides), and
                # preferably one on a continuation line
                mixed = [s for s in sites if any(a["k"] in ("rt", "kwrt", "rtcall", "kwrtcall")
                                                 for a in prog["funcs"][s[0]]["body"][s[1]]["args"])]
                ml = [s for s in mixed if prog["funcs"][s[0]]["body"][s[1]].get("multiline")]
                pool = ml if ml and rng.random() < 0.5 else (mixed if mixed and rng.random() < 0.5 else sites)
                fn, i, j = rng.choice(pool)
                cur = prog["funcs"][fn]["body"][i]["args"][j]["v"]
                if isinstance(cur, (int, float)) and not isinstance(cur, bool) and cur != 0 and rng.random() < 0.3:
                    return {"kind": "lit", "f": fn, "item": i, "arg": j, "value": -cur}      # only the sign changes
                return {"kind": "lit", "f": fn, "item": i, "arg": j,
                        "value": rng.choice([x for x in SAFE_LITERALS if x != cur])}
        if k == "rtx":
            sites = [(fn, i, j) for fn in names for i, it in enumerate(prog["funcs"][fn]["body"]) if it["t"] == "keep"
                     for j, a in enumerate(it["args"]) if a["k"] in ("rt", "kwrt")]
            if sites:
                ml = [s for s in sites if prog["funcs"][s[0]]["body"][s[1]].get("multiline")]
                fn, i, j = rng.choice(ml if ml and rng.random() < 0.5 else sites)
                cur = prog["funcs"][fn]["body"][i]["args"][j].get("x")
                return {"kind": "rtx", "f": fn, "item": i, "arg": j, "value": rng.choice([x for x in [2, 3, 5, 8] if x != cur])}
        if k == "bfver" and any(it["t"] == "shadow" and it["name"] in ir.BUILTIN_NAMES
                                for f in prog["funcs"].values() for it in f["body"]):
            return {"kind": "bfver"}
        if k == "tmpl":
            fns = [fn for fn in names if prog["funcs"][fn].get("tmpl")]
            if fns:
                return {"kind": "tmpl", "f": rng.choice(fns)}
        if k == "lzver" and ir.has_lazy(prog):
            return {"kind": "lzver"}
        if k == "addload":
            # a dds.load statement appears in a function: of any other path of the program, or of the very path the
            # function is kept at (an evaluation that reads what it is about to produce)
            fns = [fn for fn in names if prog["funcs"][fn]["kind"] != "class" and not prog["funcs"][fn].get("ill")]
            paths = all_paths(prog)
            if fns and paths:
                from .cone import Cones

                fn = rng.choice(fns)
                f = prog["funcs"][fn]
                own = f.get("path")
                if own is None:
                    site = Cones(prog).keep_site(fn)
                    if site is not None:
                        own = prog["funcs"][site[0]]["body"][site[1]]["path"]
                pth = own if own is not None and rng.random() < 0.5 else rng.choice(paths)
                return {"kind": "addload", "f": fn, "path": pth, "front": rng.random() < 0.5}
        if k == "default":
            sites = [(fn, j) for fn in names for j, (_, d) in enumerate(prog["funcs"][fn]["params"]) if d != ir.NODEFAULT]
            if sites:
                fn, j = rng.choice(sites)
                cur = prog["funcs"][fn]["params"][j][1]
                return {"kind": "default", "f": fn, "param": j,
                        "value": rng.choice([x for x in SAFE_LITERALS if x != cur])}
        if k == "unrelated":
            m = rng.choice(prog["mods"])
            pos = rng.choice(["top"] + ["after:" + fn for fn in ir.funcs_in(prog, m)])
            n = sum(len(v) for v in prog.get("extra", {}).values())
            text = rng.choice([f"UNUSED_{n} = {n}", f"def unused_{n}():\n    return {n}", f"# comment {n}\n\n",
                               f"class Unused{n}(object):\n    pass"])
            return {"kind": "unrelated", "mod": m, "pos": pos, "text": text}
        if k == "reorder":
            return {"kind": "reorder", "seed": rng.randrange(1000)}
        if k == "ext":
            return {"kind": "ext", "what": rng.choice(["EXTV", "ext_ver"])}
        if k == "move" and len(prog["mods"]) > 1:
            # moving keeps imports acyclic only for functions whose callees all live in modules >= destination
            cands = []
            for fn in names:
                f = prog["funcs"][fn]
                for m in prog["mods"]:
                    if m != f["mod"] and _move_ok(prog, fn, m):
                        cands.append((fn, m))
            if cands:
                fn, m = rng.choice(cands)
                return {"kind": "move", "f": fn, "to": m}
        if k == "respell":
            sites = [(fn, i) for fn in names for i, it in enumerate(prog["funcs"][fn]["body"]) if it["t"] == "keep"
                     and it["args"]]
            if sites:
                fn, i = rng.choice(sites)
                return {"kind": "respell", "f": fn, "item": i,
                        "mode": rng.choice(["kw", "pos", "kwrev", "explicit_default", "omit_default"])}
        if k == "path":
            sites = [(fn, i) for fn in names for i, it in enumerate(prog["funcs"][fn]["body"]) if it["t"] == "keep"]
            used = set(all_paths(prog))
            free = [p for p in PATH_POOL if p not in used]
            if sites and free:
                fn, i = rng.choice(sites)
                return {"kind": "path", "f": fn, "item": i, "value": rng.choice(free)}
    return {"kind": "ver", "f": rng.choice(names)}


def _move_ok(prog, fn, m):
    mods = prog["mods"]
    mi = mods.index(m)
    f = prog["funcs"][fn]
    if any(ir.default_var(d) for (_, d) in f["params"]):
        return False      # the default names a variable of the old module
    if any(it["t"] == "shadow" for g in prog["funcs"].values() for it in g["body"]):
        return False      # same-name helper / variable pairs are placed per module
    for it in f["body"]:
        if "f" in it and mods.index(prog["funcs"][it["f"]]["mod"]) < mi:
            return False
        for a in it.get("args", []):
            if a.get("f") and mods.index(prog["funcs"][a["f"]]["mod"]) < mi:
                return False
        if it["t"] == "var" and mods.index(prog["vars"][it["name"]]["mod"]) < mi:
            return False
        if it["t"] == "var" and it.get("form", "direct") == "direct" and prog["vars"][it["name"]]["mod"] == f["mod"]:
            return False  # a direct read of a variable of the old module would dangle
    for gname, g in prog["funcs"].items():
        for it in g["body"]:
            refs = [it.get("f")] + [a.get("f") for a in it.get("args", [])]
            if fn in refs and mods.index(g["mod"]) > mi:
                return False
    return True


def all_paths(prog):
    out = []
    for fn, f in prog["funcs"].items():
        if f["kind"] == "data":
            out.append(f["path"])
        for it in f["body"]:
            if it["t"] == "keep":
                out.append(it["path"])
    return out


def apply_edit(prog, e):
    """Returns a new program (deep copy) with the edit applied; invalid edits are no-ops."""
    p = copy.deepcopy(prog)
    k = e["kind"]
    try:
        if k == "var":
            if e["name"] in p["vars"]:
                p["vars"][e["name"]]["value"] = e["value"]
        elif k == "ver":
            p["funcs"][e["f"]]["ver"] += 1
        elif k == "comment":
            p["funcs"][e["f"]]["comment"] = p["funcs"][e["f"]].get("comment", 0) + 1
        elif k == "lit":
            a = p["funcs"][e["f"]]["body"][e["item"]]["args"][e["arg"]]
            if a["k"] in ("lit", "kw"):
                a["v"] = e["value"]
        elif k == "rtx":
            a = p["funcs"][e["f"]]["body"][e["item"]]["args"][e["arg"]]
            if a["k"] in ("rt", "kwrt"):
                a["x"] = e["value"]
        elif k == "bfver":
            p.setdefault("ext", {})["bf_ver"] = p.get("ext", {}).get("bf_ver", 1) + 1
        elif k == "tmpl":
            if p["funcs"][e["f"]].get("tmpl"):
                p["funcs"][e["f"]]["tmpl"]["n"] += 1
        elif k == "lzver":
            p.setdefault("ext", {})["lz_ver"] = p.get("ext", {}).get("lz_ver", 1) + 1
        elif k == "addload":
            f = p["funcs"][e["f"]]
            if e.get("front"):
                f["body"].insert(0, {"t": "load", "path": e["path"]})
                for it in f["body"]:
                    for a in it.get("args", []):
                        x = a.get("e")
                        if isinstance(x, str) and x.startswith("r") and x[1:].isdigit():
                            a["e"] = f"r{int(x[1:]) + 1}"
                    x = it.get("rtarg")
                    if isinstance(x, str) and x.startswith("r") and x[1:].isdigit():
                        it["rtarg"] = f"r{int(x[1:]) + 1}"
            else:
                f["body"].append({"t": "load", "path": e["path"]})
        elif k == "default":
            prm = p["funcs"][e["f"]]["params"][e["param"]]
            if prm[1] != ir.NODEFAULT:
                prm[1] = e["value"]
        elif k == "unrelated":
            if e["mod"] in p["mods"]:
                p.setdefault("extra", {}).setdefault(e["mod"], []).append({"pos": e["pos"], "text": e["text"]})
        elif k == "reorder":
            import random

            random.Random(e["seed"]).shuffle(p["order"])
        elif k == "ext":
            p["ext"][e["what"]] += 1
        elif k == "move":
            if e["f"] in p["funcs"] and e["to"] in p["mods"] and _move_ok(p, e["f"], e["to"]):
                old = p["funcs"][e["f"]]["mod"]
                p["funcs"][e["f"]]["mod"] = e["to"]
                _refresh_forms(p)
        elif k == "respell":
            it = p["funcs"][e["f"]]["body"][e["item"]]
            if it["t"] == "keep":
                _respell(p, it, e["mode"])
        elif k == "path":
            it = p["funcs"][e["f"]]["body"][e["item"]]
            if it["t"] == "keep" and e["value"] not in all_paths(p):
                it["path"] = e["value"]
    except (KeyError, IndexError):
        return copy.deepcopy(prog)
    return p


def _refresh_forms(p):
    """After a move, same-module references must be direct and cross-module ones must not be."""
    for fn, f in p["funcs"].items():
        for it in f["body"]:
            if it["t"] in ("call", "ho"):
                same = p["funcs"][it["f"]]["mod"] == f["mod"]
                if same:
                    it["form"] = "direct"
                elif it.get("form", "direct") == "direct":
                    it["form"] = "from"
            if it["t"] == "var":
                same = p["vars"][it["name"]]["mod"] == f["mod"]
                if same:
                    it["form"] = "direct"
                elif it.get("form", "direct") == "direct":
                    it["form"] = "from"


def _rtcopy(kind, a, n=None):
    out = {"k": kind, "e": a["e"]}
    if n is not None:
        out["n"] = n
    if a.get("x") is not None:
        out["x"] = a["x"]
    return out


def _respell(p, it, mode):
    """Respells the argument binding of a keep call without changing it."""
    g = p["funcs"][it["f"]]
    pnames = [n for (n, _) in g["params"]]
    # current binding: param -> argspec
    bind = {}
    pos = 0
    for a in it["args"]:
        if a["k"] in ("lit", "rt"):
            bind[pnames[pos]] = a
            pos += 1
        else:
            bind[a["n"]] = a
    if mode == "explicit_default":
        for (n, d) in g["params"]:
            if n not in bind and d != ir.NODEFAULT and not ir.default_var(d):
                bind[n] = {"k": "kw", "n": n, "v": d}
        mode = "kw"
    elif mode == "omit_default":
        for (n, d) in g["params"]:
            a = bind.get(n)
            if a is not None and a["k"] in ("lit", "kw") and d != ir.NODEFAULT and a["v"] == d and type(a["v"]) is type(d):
                del bind[n]
        mode = "kw"
    if mode == "pos":
        args = []
        for n in pnames:
            if n not in bind:
                break
            a = bind[n]
            args.append({"k": "lit", "v": a["v"]} if a["k"] in ("lit", "kw") else _rtcopy("rt", a))
        rest = [n for n in pnames[len(args):] if n in bind]
        for n in rest:
            a = bind[n]
            args.append({"k": "kw", "n": n, "v": a["v"]} if a["k"] in ("lit", "kw") else _rtcopy("kwrt", a, n))
        it["args"] = args
    else:
        order = [n for n in pnames if n in bind]
        if mode == "kwrev":
            order = list(reversed(order))
        args = []
        for n in order:
            a = bind[n]
            args.append({"k": "kw", "n": n, "v": a["v"]} if a["k"] in ("lit", "kw") else _rtcopy("kwrt", a, n))
        it["args"] = args
