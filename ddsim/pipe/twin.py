"""Twin histories: the history H containing X and its twin H' without X are both simulated; every later
observation must be equal, except that later execution logs of H may be a subset of H''s (reuse of sub-results
that did complete)."""
import copy
from collections import Counter


def with_ids(case):
    c = copy.deepcopy(case)
    for i, op in enumerate(c["ops"]):
        op.setdefault("id", i)
    return c


def twin_of(case, drop):
    """The same history without the operations for which drop(op) is true."""
    c = copy.deepcopy(case)
    # a dropped evaluation still starts its process at the same point of the history (same code version)
    c["ops"] = [op if not drop(op) else {"op": "touch", "proc": op.get("proc", 0), "id": op.get("id")}
                for op in c["ops"]]
    return c


def _norm(res):
    """Exception messages embed scratch paths: compare class and error code only."""
    return res[:3] if res and res[0] == "exc" else res


def compare_after(w1, w2, from_id, oracle, violate, subset_logs=True):
    """Compares observations of ops with id > from_id."""
    o2 = {o["i"]: o for o in w2.obs}
    n = 0
    for o in w1.obs:
        if o["i"] <= from_id or o["i"] not in o2:
            continue
        t = o2[o["i"]]
        n += 1
        if _norm(o["res"]) != _norm(t["res"]):
            violate(oracle, f"op {o['i']} {o['op']} {o.get('entry') or o.get('path')}: result {str(o['res'])[:200]} differs from the "
                            f"twin history's {str(t['res'])[:200]}")
        if o["op"] == "eval":
            if o.get("sigs") != t.get("sigs"):
                violate(oracle, f"op {o['i']} eval {o['entry']}: committed signatures differ from the twin history")
            c1, c2 = Counter(o["log"]), Counter(t["log"])
            if subset_logs:
                if any(c1[k] > c2[k] for k in c1):
                    violate(oracle, f"op {o['i']} eval {o['entry']}: executed {sorted((c1 - c2).elements())} which the twin "
                                    f"history did not execute")
            elif c1 != c2:
                violate(oracle, f"op {o['i']} eval {o['entry']}: execution log differs from the twin history")
    return n
