"""Dependency cones and cone fingerprints (DESIGN.md 4.1), computed from the program IR - not from dds."""
from ..core.util import sha
from . import ir


def _is_expression(v):
    """`-1` is not a literal in Python ("numeric literals do not include a sign; a phrase like -1 is actually an
    expression composed of the unary operator '-' and the literal 1", language reference 2.4.4): such an argument
    is a non-literal expression, i.e. a run-time binding in the sense of DESIGN.md 4.1 (b)."""
    return isinstance(v, (int, float)) and not isinstance(v, bool) and (v < 0 or repr(v).startswith("-"))


class Cones:
    def __init__(self, prog, load_fp=None, entry=None):
        """load_fp(path) -> fingerprint of whatever the store's committed path serves (for loads of paths that
        are not produced earlier in the same evaluation)."""
        self.prog = prog
        self.load_fp = load_fp or (lambda p: "unknown")
        self._sc = {}
        self._fp = {}
        self._site = None
        self._reach = None
        self._busy = set()
        self.entry = entry

    # ---- where is a target kept (exactly one site by construction)
    def keep_site(self, target):
        if self._site is None:
            self._site = {}
            for gn, g in self.prog["funcs"].items():
                if g.get("ill"):
                    continue
                for i, it in enumerate(g["body"]):
                    if it["t"] == "keep":
                        self._site.setdefault(it["f"], (gn, i))
        return self._site.get(target)

    def producers(self):
        """path -> ("data", fn) | ("keep", caller, index)"""
        out = {}
        for fn, f in self.prog["funcs"].items():
            if f.get("ill"):
                continue
            if f["kind"] == "data":
                out[f["path"]] = ("data", fn)
            for i, it in enumerate(f["body"]):
                if it["t"] == "keep":
                    out[it["path"]] = ("keep", fn, i)
        return out

    def _item_members(self, fn, i, it, upto_ctx=False):
        prog = self.prog
        f = prog["funcs"][fn]
        t = it["t"]
        m = set()
        if t == "var":
            v = prog["vars"][it["name"]]
            written = ir._ref_name(prog, f["mod"], v["mod"], it["name"], it.get("form", "direct"))
            m.add(("var", written, ir.render_value(v["kind"], v["value"])))
        elif t in ("call", "ho"):
            m |= self.sc(it["f"])
        elif t == "keep":
            m.add(("node", self.fp_keep(fn, i)))
            for a in it.get("args", []):
                if a["k"] in ("rtcall", "kwrtcall"):
                    m |= self.sc(a["f"])
        elif t == "load":
            prod = self.producers().get(it["path"])
            if prod is not None and self._in_eval(prod):
                if prod in self._busy:
                    m.add(("load", it["path"], "self-loop"))   # a function loading the path its own caller produces
                else:
                    self._busy.add(prod)
                    try:
                        m.add(("load", it["path"], self.fp_node(prod)))
                    finally:
                        self._busy.discard(prod)
            else:
                m.add(("load", it["path"], self.load_fp(it["path"])))
        elif t == "lazy":
            m.add(("lazy", "\n".join(ir.lazy_text(prog))))
        elif t == "shadow":
            m.add(("helper", it["name"], "\n".join(ir.shadow_text(it["name"], prog))))
        elif t == "ext":
            m.add(("ext", "extlib.ext_fn"))
        elif t == "extvar":
            m.add(("ext", "extlib.EXTV"))
        return m

    def _in_eval(self, prod):
        if self.entry is None:
            return True
        if self._reach is None:
            from . import gen

            self._reach = gen.reachable(self.prog, self.entry)
        return prod[1] in self._reach

    def sc(self, fn):
        """Static content of a function: a frozenset of members."""
        if fn in self._sc:
            return self._sc[fn]
        prog = self.prog
        f = prog["funcs"][fn]
        m = {("text", "\n".join(ir.render_func(prog, fn)))}
        for i, it in enumerate(f["body"]):
            m |= self._item_members(fn, i, it)
        if f["kind"] != "target":
            # (every parameter of a helper / data function is left to its default; for a kept target the keep site
            # decides which defaults are used: fp_keep)
            for (_, d) in f["params"]:
                vn = ir.default_var(d)
                if vn:
                    v = prog["vars"][vn]
                    m.add(("var", vn, ir.render_value(v["kind"], v["value"])))
        self._sc[fn] = frozenset(m)
        return self._sc[fn]

    def static_binding(self, caller, i):
        """Returns the list of (param, literal repr) when every parameter is bound statically, else None."""
        it = self.prog["funcs"][caller]["body"][i]
        g = self.prog["funcs"][it["f"]]
        pnames = [n for (n, _) in g["params"]]
        bind = {}
        pos = 0
        for a in it["args"]:
            if a["k"] in ("lit", "kw") and _is_expression(a["v"]):
                return None
            if a["k"] == "lit":
                bind[pnames[pos]] = repr(a["v"])
                pos += 1
            elif a["k"] == "kw":
                bind[a["n"]] = repr(a["v"])
            elif a["k"] in ("rt", "kwrt", "rtcall", "kwrtcall"):
                return None
        for (n, d) in g["params"]:
            if n not in bind:
                if d == ir.NODEFAULT:
                    return None
                bind[n] = repr(d)
        return sorted(bind.items())

    def _used_default_vars(self, caller, i):
        """Module variables that are the default value of a parameter the keep site leaves unbound."""
        prog = self.prog
        it = prog["funcs"][caller]["body"][i]
        g = prog["funcs"][it["f"]]
        npos = sum(1 for a in it["args"] if not a["k"].startswith("kw"))
        named = {a.get("n") for a in it["args"] if a["k"].startswith("kw")}
        m = set()
        for k, (n, d) in enumerate(g["params"]):
            vn = ir.default_var(d)
            if vn and k >= npos and n not in named:
                v = prog["vars"][vn]
                m.add(("var", vn, ir.render_value(v["kind"], v["value"])))
        return m

    def ctx(self, caller, i):
        """Call-site context of the keep at (caller, i)."""
        prog = self.prog
        g = prog["funcs"][caller]
        m = {("text", "\n".join(ir.render_func(prog, caller)))}
        for j, it in enumerate(g["body"]):
            if it["t"] in ("var", "ext", "extvar"):
                m |= self._item_members(caller, j, it)
            elif j < i:
                m |= self._item_members(caller, j, it)
        for a in g["body"][i].get("args", []):
            if a["k"] in ("rtcall", "kwrtcall"):
                m |= self.sc(a["f"])
        # the caller's own default values may be passed on as run-time arguments
        if g["kind"] == "target":
            site = self.keep_site(caller)
            if site is not None:
                m |= self._used_default_vars(*site)
        else:
            for (_, d) in g["params"]:
                vn = ir.default_var(d)
                if vn:
                    v = prog["vars"][vn]
                    m.add(("var", vn, ir.render_value(v["kind"], v["value"])))
        m |= self.binding_of(caller)
        return m

    def binding_of(self, fn):
        """The binding part of a function that is itself a kept target (empty for zero-parameter functions)."""
        f = self.prog["funcs"][fn]
        if f["kind"] != "target":
            return set()
        site = self.keep_site(fn)
        if site is None:
            return {("driver-bound", fn)}
        sb = self.static_binding(*site)
        if sb is not None:
            return {("bind", n, v) for n, v in sb}
        return {("ctx", sha(repr(sorted(self.ctx(*site)))))}

    def fp_keep(self, caller, i):
        key = ("keep", caller, i)
        if key in self._fp:
            return self._fp[key]
        it = self.prog["funcs"][caller]["body"][i]
        m = set(self.sc(it["f"]))
        m |= self._used_default_vars(caller, i)
        sb = self.static_binding(caller, i)
        if sb is not None:
            m |= {("bind", n, v) for n, v in sb}
        else:
            m.add(("ctx", sha(repr(sorted(self.ctx(caller, i))))))
        self._fp[key] = sha(repr(sorted(m)))
        return self._fp[key]

    def fp_data(self, fn):
        key = ("data", fn)
        if key not in self._fp:
            self._fp[key] = sha(repr(sorted(self.sc(fn))))
        return self._fp[key]

    def fp_node(self, prod):
        if prod[0] == "data":
            return self.fp_data(prod[1])
        return self.fp_keep(prod[1], prod[2])

    def kept_functions(self):
        """kept function name -> fingerprint of its (unique) node."""
        out = {}
        for path, prod in self.producers().items():
            if prod[0] == "data":
                out[prod[1]] = self.fp_data(prod[1])
            else:
                out[self.prog["funcs"][prod[1]]["body"][prod[2]]["f"]] = self.fp_keep(prod[1], prod[2])
        return out
