"""C07 - processes sharing a local store never observe partial or foreign results (engine F, interleavings).

2-3 simulated processes run against one internal directory; exactly one parked process is released per step by a
seeded scheduler (uniform / sticky / PCT / bounded pre-emption); faults: stall, peer kill, clock jump / skew.
"""
import copy
import os
import random
import shutil

from ..core.shrink import list_removals
from ..core.util import HarnessError, new_scratch, rmtree, sha
from ..pipe import ir
from ..pipe.ref import ref_eval, write_tree
from ..procsim import workloads
from ..procsim.sched import Sim
from ..storesim.values import canon

PROP = "C07"
LEVEL = "exploration"
DESIGN_REF = "DESIGN.md 5, 7 (C07)"
BUDGETS = {"quick": 40.0, "thorough": 900.0}
CHUNK = 4
MINIMISE_BUDGET = 150
SHRINK_AFTER_FINALIZE = True
RULE = (
    "each run: a seeded workload program, 2-3 processes (same keep on a cold store with or without existing "
    "directories; keep vs load of a committed path; keep of changed code vs readers; same or different data "
    "directories; workers forked from a live process that already used the store) and a seeded schedule deciding which parked process executes its next file-system operation "
    "(granularity: stat/lstat/mkdir/open/write-half/close/read/remove/symlink/rename). A run is non-trivial when at "
    "least two processes were pre-empted inside each other's evaluation (>= 2 context switches between their first "
    "and last store operation); distinct = distinct sequence of (process, operation, path class) over the run."
)
COMPONENTS = {
    "real": ["all of dds from /repo", "CPython os/posix", "tmpfs", "pickle, json"],
    "stub": ["write proxy (two-half flush)", "virtual clock", "seeded scheduler (decides who runs; processes are real "
             "forked children parked at intercepted calls)", "dds-free reference shim"],
}
ASSUMPTIONS = [
    "interleaving granularity is one intercepted file-system call; writes are split in two halves",
    "schedules are sampled, not enumerated",
    "a load is checked against the set of values committed before it was invoked or by an evaluation concurrent with it (necessary condition of linearizability, no false alarm)",
    "a killed peer (fault) is excluded from the oracles; survivors must still succeed",
]
PROBES = ["forked_workers", "forked_after_first_write", "reader_pipeline", "reader_between_blob_and_meta", "two_writers_same_blob", "creation_race", "reader_during_relink",
          "preempt_in_eval", "kill_peer", "stall", "clock_jump", "different_data_dirs", "three_procs"]

POLICIES = ["random", "sticky", "pct", "rr"]


def gen_case(streams, tier, avoid):
    cfg = streams.get("config")
    rng = streams.get("program")
    root_kept = cfg.random() < 0.3
    prog = workloads.gen_program(rng, nfun=cfg.randint(2, 4 if tier == "quick" else 6), big=cfg.random() < 0.4,
                                 root_kept=root_kept)
    names = sorted(prog["funcs"])
    fam = cfg.choice(["cold", "cold", "keep_vs_load", "changed_vs_reader", "mixed", "reader_pipeline", "forked"])
    nprocs = cfg.choice([2, 2, 2, 3] if tier == "quick" else [2, 2, 3, 3, 4])
    setup = 0
    edit = None
    procs = []
    paths = workloads.kept_paths(prog)
    forked = None
    if fam == "cold":
        setup = 0
        for _ in range(nprocs):
            procs.append({"src": "old", "ops": [["eval"]], "data": "data"})
    elif fam == "forked":
        # workers forked from a live process that has configured the store and possibly used it already (the fork
        # start method of multiprocessing): they inherit its memory image and race on a partly cold store
        setup = 0
        leaves = [n for n in names if n != "f0" and prog["funcs"][n]["kind"] == "data"]
        forked = {"warm": cfg.choice(leaves) if leaves and cfg.random() < 0.75 else None}
        for _ in range(nprocs):
            procs.append({"src": "old", "ops": [["eval"]] + ([["load", cfg.choice(paths)]] if cfg.random() < 0.3 else []),
                          "data": "data"})
    elif fam == "keep_vs_load":
        setup = 1
        edit = {"f": cfg.choice(names)} if cfg.random() < 0.5 else None
        procs.append({"src": "new", "ops": [["eval"]], "data": "data"})
        for _ in range(nprocs - 1):
            procs.append({"src": "old", "ops": [["load", cfg.choice(paths)] for _ in range(cfg.randint(1, 3))],
                          "data": "data"})
    elif fam == "changed_vs_reader":
        setup = 1
        edit = {"f": cfg.choice(names)}
        procs.append({"src": "new", "ops": [["eval"]], "data": "data"})
        procs.append({"src": "old", "ops": [["eval"], ["load", cfg.choice(paths)]], "data": "data"})
        if nprocs == 3:
            procs.append({"src": "new", "ops": [["load", cfg.choice(paths)], ["eval"]], "data": "data"})
    elif fam == "reader_pipeline":
        # a pipeline that only LOADS a path of the producer runs next to a producer whose code changed
        setup = 1
        workloads.add_reader(prog, rng)
        edit = {"f": cfg.choice(names)}
        procs.append({"src": "old", "ops": [["evalr"]] + ([["load", cfg.choice(paths)]] if cfg.random() < 0.5 else []),
                      "data": "data"})
        procs.append({"src": "new", "ops": [["eval"]], "data": "data"})
        if nprocs == 3:
            procs.append({"src": cfg.choice(["old", "new"]), "ops": [[cfg.choice(["evalr", "eval"])]], "data": "data"})
    else:
        setup = cfg.choice([0, 1])
        edit = {"f": cfg.choice(names)} if cfg.random() < 0.5 else None
        for i in range(nprocs):
            ops = [["eval"]] + ([["load", cfg.choice(paths)]] if cfg.random() < 0.5 else [])
            procs.append({"src": cfg.choice(["old", "new"]) if edit else "old", "ops": ops,
                          "data": cfg.choice(["data", "data", "data2"])})
    case = {
        "prog": prog, "edit": edit, "setup_evals": setup, "procs": procs, "family": fam, "forked": forked,
        "predirs": cfg.random() < 0.6,     # store directories created during set-up (staged workload family)
        "cache": cfg.choice([None, None, 2]),
        "policy": {"kind": cfg.choice(POLICIES), "seed": cfg.randrange(1 << 30), "p": cfg.choice([0.5, 0.8, 0.95]),
                   "d": cfg.randint(1, 3), "k": cfg.randint(1, 3)},
        "schedule": None,
        "faults": [],
        "root_style": cfg.choice(["call", "call", "eval"]) if root_kept else "eval",
    }
    f = streams.get("faults")
    if cfg.random() < 0.35:
        kind = f.choice(["stall", "stall", "kill", "clock_jump", "skew"])
        case["faults"].append({"kind": kind, "at": f.randint(5, 150), "proc": f.randrange(nprocs),
                               "len": f.randint(5, 60), "delta": f.choice([-1e6, 1e6, 3600.0])})
    return case


def _new_prog(case):
    p = ir.clone(case["prog"])
    if case["edit"]:
        p["funcs"][case["edit"]["f"]]["ver"] += 1
    return p


class Scheduler:
    """Seeded choice of the next process to release (used when the case has no explicit schedule)."""

    def __init__(self, policy, nprocs):
        self.pol = policy
        self.rng = random.Random(policy["seed"])
        self.cur = None
        self.n = 0
        kind = policy["kind"]
        if kind == "pct":
            self.prio = list(range(nprocs))
            self.rng.shuffle(self.prio)
            self.change = sorted(self.rng.randint(1, 250) for _ in range(policy["d"]))
        if kind == "rr":
            self.preempt = sorted(self.rng.randint(1, 250) for _ in range(policy["k"]))

    def pick(self, parked_ids):
        self.n += 1
        kind = self.pol["kind"]
        if kind == "random":
            c = self.rng.choice(parked_ids)
        elif kind == "sticky":
            if self.cur in parked_ids and self.rng.random() < self.pol["p"]:
                c = self.cur
            else:
                c = self.rng.choice(parked_ids)
        elif kind == "pct":
            if self.change and self.n >= self.change[0]:
                self.change.pop(0)
                top = max(parked_ids, key=lambda i: self.prio[i])
                self.prio[top] = min(self.prio) - 1
            c = max(parked_ids, key=lambda i: self.prio[i])
        else:  # rr with bounded pre-emptions: run the current process until it finishes, except at pre-emption points
            if self.cur in parked_ids and not (self.preempt and self.n >= self.preempt[0]):
                c = self.cur
            else:
                if self.preempt and self.n >= self.preempt[0]:
                    self.preempt.pop(0)
                others = [i for i in parked_ids if i != self.cur] or parked_ids
                c = others[0] if self.cur is None else min(others, key=lambda i: (i <= self.cur, i))
        self.cur = c
        return c


def run_case(case):
    root = new_scratch("c07")
    try:
        return _run(case, root)
    finally:
        rmtree(root)


def _pclass(path):
    if not isinstance(path, str):
        return ""
    if "/blobs/" in path:
        return "meta" if path.endswith(".meta") else ("tmp" if ".tmp" in path else "blob")
    if path.startswith("$R/data"):
        return "link" if path.count("/") > 1 else "datadir"
    if path.startswith("$R/int"):
        return "intdir"
    return "other"


def _run(case, root):
    old = case["prog"]
    new = _new_prog(case)
    src = {"old": os.path.join(root, "src_old"), "new": os.path.join(root, "src_new")}
    write_tree(src["old"], ir.render(old))
    write_tree(src["new"], ir.render(new))
    entry = ir.modname(old, "m0") + ":f0"
    val, tab = {}, {}
    for k in ("old", "new"):
        (r,), t = ref_eval(src[k], [{"entry": entry}])
        if r["res"][0] != "ok":
            raise HarnessError(f"reference run failed: {r['res']}")
        val[k] = r["res"]
        tab[k] = {p: canon(v) for p, v in t.items()}
    has_reader = "fr" in old["funcs"]
    rentry = ir.modname(old, "m0") + ":fr"
    rval = {}
    if has_reader:
        from ..pipe.ref import ref_eval as _re

        for rs in ("old", "new"):
            for ps in ("old", "new"):
                (r0,), t0 = _re(src[ps], [{"entry": entry}])
                (r1,), _t = _re(src[rs], [{"entry": rentry}], table=t0)
                if r1["res"][0] != "ok":
                    raise HarnessError(f"reader reference failed: {r1['res']}")
                rval[(rs, ps)] = r1["res"]
        # the reader's own path is not part of the producer tables
        for k in ("old", "new"):
            tab[k].pop("/rd/out", None)
    live = os.path.join(root, "live")
    os.makedirs(live)
    idir = os.path.join(live, "int")
    seed_hex = sha("c07", repr(case["policy"]))

    def job(srck, ops, data="data", gates=True):
        out = [{"op": "set_store", "internal": idir, "data": os.path.join(live, data), "cache": case.get("cache"),
                "invoke_gate": False},
               {"op": "import", "srcdir": src[srck], "modules": [ir.modname(old, "m0")], "accept": ["pk"],
                "invoke_gate": False}]
        for o in ops:
            if o[0] == "eval":
                out.append({"op": case.get("root_style", "eval"), "entry": entry, "invoke_gate": gates})
            elif o[0] == "evalr":
                out.append({"op": "eval", "entry": rentry, "invoke_gate": gates})
            else:
                out.append({"op": "load", "path": o[1], "invoke_gate": gates})
        return out

    log, violations, probes, faults = [], [], {}, {}

    def probe(n, c=1):
        probes[n] = probes.get(n, 0) + c

    # ---- set-up (sequential, not part of the interleaving)
    datas = sorted({p["data"] for p in case["procs"]})
    writes = {d: [] for d in datas}    # per data view: list of (inv, ret, table) "writes" of the path table
    if case["predirs"] or case["setup_evals"]:
        for d in datas:
            sim = Sim(live, seed_hex)
            try:
                p = sim.spawn(job("old", [["eval"]] * case["setup_evals"], d, gates=False))
                sim.run_alone(p)
                for k in range(case["setup_evals"]):
                    if p.results.get(2 + k) != val["old"]:
                        violations.append({"oracle": "C07.baseline",
                                           "detail": f"sequential set-up evaluation returned {p.results.get(2 + k)}"})
                        return {"violations": violations, "log": log, "nontrivial": False}
            finally:
                sim.close()
            if case["setup_evals"]:
                writes[d].append((-2, -1, tab["old"]))
    if has_reader:
        probe("reader_pipeline")
    if len(datas) > 1:
        probe("different_data_dirs")
    if len(case["procs"]) > 2:
        probe("three_procs")

    # ---- the interleaved phase
    sim = Sim(live, seed_hex)
    sched = Scheduler(case["policy"], len(case["procs"]))
    explicit = list(case["schedule"]) if case["schedule"] is not None else None
    chosen = []
    killed = set()
    stalled = {}
    fault_plan = {f["at"]: f for f in case["faults"]}
    switches = 0
    akey = []
    try:
        if case.get("forked"):
            probe("forked_workers")
            warm = case["forked"].get("warm")
            tjob = job("old", [], "data", gates=False)
            if warm:
                wentry = ir.modname(old, "m0") + ":" + warm
                tjob.append({"op": "call", "entry": wentry, "invoke_gate": False})
                (rw,), tw = ref_eval(src["old"], [{"entry": wentry}])
                if rw["res"][0] != "ok":
                    raise HarnessError(f"reference run of the warm-up failed: {rw['res']}")
                writes["data"].append((-2, -1, {p: canon(v) for p, v in tw.items()}))
                probe("forked_after_first_write")
            tmpl = sim.spawn_template(tjob, len(case["procs"]))
            sim.run_alone(tmpl)
            if tmpl.state != "forkserver":
                raise HarnessError(f"template process ended in state {tmpl.state}")
            if warm and tmpl.results.get(2, [None])[0] != "ok":
                violations.append({"oracle": "C07.baseline", "detail": f"sequential warm-up returned {tmpl.results.get(2)}"})
                return {"violations": violations, "log": log, "nontrivial": False}
            noop = {"op": "noop", "invoke_gate": False}
            procs = [sim.fork_from(tmpl, [noop, noop] + job("old", pc["ops"], "data")[2:]) for pc in case["procs"]]
        else:
            procs = [sim.spawn(job(pc["src"], pc["ops"], pc["data"])) for pc in case["procs"]]
        step = 0
        last = None
        while True:
            parked = [p for p in procs if p.state == "parked"]
            if not parked:
                break
            step += 1
            if step > 6000:
                violations.append({"oracle": "C07.nofail", "detail": "no completion within 6000 steps (livelock?)"})
                break
            f = fault_plan.get(step)
            if f is not None:
                tp = procs[f["proc"] % len(procs)]
                if f["kind"] == "kill" and tp.state == "parked" and len(parked) > 1:
                    sim.kill(tp)
                    killed.add(tp.id)
                    faults["kill"] = faults.get("kill", 0) + 1
                    probe("kill_peer")
                    log.append([step, "KILL", tp.id, tp.parked_at])
                    continue
                if f["kind"] == "stall":
                    stalled[tp.id] = step + f["len"]
                    faults["stall"] = faults.get("stall", 0) + 1
                    probe("stall")
                if f["kind"] == "clock_jump":
                    sim.clock_jump(f["delta"])
                    faults["clock_jump"] = faults.get("clock_jump", 0) + 1
                    probe("clock_jump")
                if f["kind"] == "skew":
                    tp.skew = f["delta"]
                    faults["clock_skew"] = faults.get("clock_skew", 0) + 1
            ids = [p.id for p in parked if stalled.get(p.id, 0) < step] or [p.id for p in parked]
            if explicit is not None:
                c = None
                while explicit:
                    c = explicit.pop(0)
                    if c in ids:
                        break
                    c = None
                if c is None:
                    c = ids[0] if last not in ids else last
            else:
                c = sched.pick(ids)
            chosen.append(c)
            p = procs[c]
            op, args = p.parked_at
            pc = _pclass(args[0] if args else "")
            akey.append((c, op, pc))
            if last is not None and last != c:
                switches += 1
            last = c
            _race_probes(procs, p, probe)
            log.append([step, c, op] + [a for a in args])
            sim.step(p)
    finally:
        sim.close()

    # ---- collect the history: invoke / return events stamped with the global event sequence
    hist = []   # (proc, opidx, op, inv_seq, ret_seq or None, outcome)
    inv = {}
    for t in sim.trace:
        seq, pid, kind = t[0], t[1], t[2]
        if pid >= 100:
            continue        # the template's own (sequential) operations
        if kind == "invoke":
            inv[(pid, t[3])] = seq
        elif kind == "ret":
            i = t[3]
            if i >= 2:
                hist.append([pid, i, case["procs"][pid]["ops"][i - 2], inv.get((pid, i)), seq, t[4]])
    for (pid, i), s in inv.items():
        if i >= 2 and not any(h[0] == pid and h[1] == i for h in hist):
            hist.append([pid, i, case["procs"][pid]["ops"][i - 2], s, None, None])   # in flight when killed
    hist.sort(key=lambda h: h[3] if h[3] is not None else 0)
    log.append(["history", hist])
    BIG = 10 ** 9
    for h in hist:
        pid, i, op, a, b, out = h
        if op[0] == "eval":
            d = case["procs"][pid]["data"]
            # an evaluation (also one that failed or was killed) may have committed its paths: it is a pending write
            writes[d].append((a, b if (b is not None and out and out[0] == "ok") else BIG, tab[case["procs"][pid]["src"]]))
    for h in hist:
        pid, i, op, a, b, out = h
        if pid in killed and out is None:
            continue
        srck = case["procs"][pid]["src"]
        if out is None:
            violations.append({"oracle": "C07.nofail", "detail": f"process {pid} op {op} never returned"})
            continue
        if op[0] == "evalr":
            okvals = [rval[(srck, ps)] for ps in ("old", "new")]
            if out[0] != "ok":
                violations.append({"oracle": "C07.nofail",
                                   "detail": f"process {pid} reader evaluation raised {out[1:]} although the loaded path was committed before"})
            elif out not in okvals:
                violations.append({"oracle": "C07.value",
                                   "detail": f"process {pid} reader evaluation returned {_short(out)} expected one of {[_short(x) for x in okvals]}"})
            continue
        if op[0] == "eval":
            if out[0] != "ok":
                violations.append({"oracle": "C07.nofail",
                                   "detail": f"process {pid} evaluation raised {out[1:]} (workload succeeds in every serial order)"})
            elif out != val[srck]:
                violations.append({"oracle": "C07.value",
                                   "detail": f"process {pid} evaluation returned {_short(out)} expected {_short(val[srck])}"})
        else:
            path = op[1]
            d = case["procs"][pid]["data"]
            ws = [w for w in writes[d] if path in w[2]]
            completed_before = [w for w in ws if w[1] < a]
            if out[0] != "ok":
                if completed_before:
                    violations.append({"oracle": "C07.nofail",
                                       "detail": f"process {pid} load {path} raised {out[1:]} although the path was committed before the load was invoked"})
                continue
            allowed = set()
            for w in ws:
                if w[0] is not None and w[0] < b:
                    superseded = any(w2[0] is not None and w[1] < w2[0] and w2[1] < a and w2[2][path] != w[2][path]
                                     for w2 in ws)
                    if not superseded:
                        allowed.add(w[2][path])
            if out[1] not in allowed:
                violations.append({"oracle": "C07.value",
                                   "detail": f"process {pid} load {path} returned {_short(out[1])}; allowed {sorted(_short(x) for x in allowed)}"})
    # ---- final state, first WITHOUT evaluating anything: what do the committed paths serve now?
    if not violations:
        for d in datas:
            allp = sorted(set(tab["old"]) | set(tab["new"]))
            sim3 = Sim(live, seed_hex)
            try:
                p3 = sim3.spawn(job("old", [["load", pth] for pth in allp], d, gates=False))
                sim3.run_alone(p3)
            finally:
                sim3.close()
            for k, pth in enumerate(allp):
                r = p3.results.get(2 + k)
                ws = [w for w in writes[d] if pth in w[2]]
                done = [w for w in ws if w[1] < BIG]
                allowed = set()
                for w in ws:
                    superseded = any(w[1] < w2[0] and w2[1] < BIG and w2[2][pth] != w[2][pth] for w2 in ws)
                    if not superseded:
                        allowed.add(w[2][pth])
                if r is None:
                    continue
                if r[0] == "ok":
                    if r[1] not in allowed:
                        violations.append({"oracle": "C07.final",
                                           "detail": f"after all finished (nothing re-evaluated), path {pth} on view {d} serves {_short(r[1])}; "
                                                     f"allowed {sorted(_short(x) for x in allowed)}"})
                elif done:
                    violations.append({"oracle": "C07.final",
                                       "detail": f"after all finished, path {pth} on view {d} fails to load ({r[1:]}) although it was committed"})
    # ---- final state after a fresh evaluation
    if not violations:
        final_src = "new" if any(pc["src"] == "new" and any(o[0] == "eval" for o in pc["ops"]) for pc in case["procs"]) else "old"
        for d in datas:
            sim2 = Sim(live, seed_hex)
            try:
                tabf = tab[final_src]
                p = sim2.spawn(job(final_src, [["eval"]] + [["load", pth] for pth in sorted(tabf)], d, gates=False))
                sim2.run_alone(p)
            finally:
                sim2.close()
            r = p.results.get(2)
            if r is None or r[0] != "ok":
                violations.append({"oracle": "C07.final", "detail": f"after all finished, evaluation on view {d} raised {_short(r)}"})
            elif r != val[final_src]:
                violations.append({"oracle": "C07.final", "detail": f"after all finished, evaluation returned {_short(r)}"})
            for k, pth in enumerate(sorted(tabf)):
                r = p.results.get(3 + k)
                if r is None or r[0] != "ok" or r[1] != tabf[pth]:
                    violations.append({"oracle": "C07.final", "detail": f"after all finished, path {pth} on view {d} loads {_short(r)}"})
    if switches >= 2:
        probe("preempt_in_eval")
    for v in violations:
        v["schedule"] = chosen
        v["tags"] = _vtags(case, log)
    return {"violations": violations[:4], "log": log, "probes": probes, "faults": faults,
            "nontrivial": switches >= 2, "key": sha(repr(akey))[:20], "sim_time": sim.sim_time, "steps": sim.seq}


def _short(r):
    s = repr(r)
    return s if len(s) < 160 else s[:150] + "...(" + str(len(s)) + ")"


def _race_probes(procs, p, probe):
    """Rare-condition probes evaluated just before p executes its parked operation."""
    op, args = p.parked_at
    path = args[0] if args and isinstance(args[0], str) else ""
    others = [q for q in procs if q is not p and q.state == "parked" and q.parked_at]
    for q in others:
        qop, qargs = q.parked_at
        qpath = qargs[0] if qargs and isinstance(qargs[0], str) else ""
        if op in ("stat", "open_r", "read") and _pclass(path) in ("blob", "meta") and qop in ("write", "close", "rename", "open_w") \
                and _pclass(qpath) in ("tmp", "meta", "blob") and path[:80] == qpath[:80]:
            probe("reader_between_blob_and_meta")
        if op in ("write", "rename", "open_w") and qop in ("write", "rename", "open_w") and _pclass(path) in ("tmp", "blob", "meta") \
                and path.split(".tmp")[0] == qpath.split(".tmp")[0]:
            probe("two_writers_same_blob")
        if op == "mkdir" and qop in ("mkdir", "stat") and path == qpath:
            probe("creation_race")
        if op in ("lstat", "readlink", "stat") and _pclass(path) == "link" and qop in ("rename", "symlink", "remove") and \
                (qpath.split(".tmp")[0] == path or (len(qargs) > 1 and qargs[1] == path)):
            probe("reader_during_relink")


def _vtags(case, log):
    t = {"family:" + case["family"]}
    if not case["predirs"] and not case["setup_evals"]:
        t.add("cold-dirs")
    if case["edit"]:
        t.add("edit")
    for f in case["faults"]:
        t.add("fault:" + f["kind"])
    return sorted(t)


def tags(case):
    return _vtags(case, [])


# ---------------------------------------------------------------------------------------------


def finalize(case, violation):
    c = copy.deepcopy(case)
    if violation.get("schedule") is not None:
        c["schedule"] = list(violation["schedule"])
    return c


def shrink(case):
    base = copy.deepcopy(case)
    # explicit schedule simplification: remove pre-emptions (continue the current process)
    if base["schedule"] is not None:
        s = base["schedule"]
        for i in range(1, len(s)):
            if s[i] != s[i - 1]:
                c = copy.deepcopy(base)
                j = i
                while j < len(s) and s[j] == s[i]:
                    j += 1
                # move the run [i:j) of the other process after the next run of the previous process
                k = j
                while k < len(s) and s[k] == s[i - 1]:
                    k += 1
                if k > j:
                    c["schedule"] = s[:i] + s[j:k] + s[i:j] + s[k:]
                    yield c
        return
    if base["faults"]:
        c = copy.deepcopy(base)
        c["faults"] = []
        yield c
    if len(base["procs"]) > 2:
        for i in range(len(base["procs"])):
            c = copy.deepcopy(base)
            del c["procs"][i]
            for f in c["faults"]:
                f["proc"] = f["proc"] % len(c["procs"])
            yield c
    for i, pc in enumerate(base["procs"]):
        for ops in list_removals(pc["ops"], 1):
            c = copy.deepcopy(base)
            c["procs"][i]["ops"] = ops
            yield c
    prog = base["prog"]
    for fn in reversed(sorted(prog["funcs"])):
        if fn == "f0" or (base.get("forked") or {}).get("warm") == fn:
            continue
        c = copy.deepcopy(base)
        del c["prog"]["funcs"][fn]
        c["prog"]["order"] = [x for x in c["prog"]["order"] if x != fn]
        for g in c["prog"]["funcs"].values():
            g["body"] = [it for it in g["body"] if it.get("f") != fn]
        if c["edit"] and c["edit"]["f"] == fn:
            continue
        paths = set(workloads.kept_paths(c["prog"]))
        if any(o[0] == "load" and o[1] not in paths for pc in c["procs"] for o in pc["ops"]):
            continue
        yield c
    if base["cache"]:
        c = copy.deepcopy(base)
        c["cache"] = None
        yield c
    if base["policy"]["kind"] != "rr":
        for k in (1, 2, 3):
            c = copy.deepcopy(base)
            c["policy"] = dict(base["policy"], kind="rr", k=k)
            yield c
    for fn in sorted(prog["funcs"]):
        f = prog["funcs"][fn]
        if f.get("pad"):
            c = copy.deepcopy(base)
            c["prog"]["funcs"][fn]["pad"] = 0
            yield c
        if f.get("ret", "tuple") != "tuple":
            c = copy.deepcopy(base)
            c["prog"]["funcs"][fn]["ret"] = "tuple"
            yield c


def sample(case, res):
    return {"case": {k: v for k, v in case.items() if k != "_seed"}, "seed": case.get("_seed"),
            "schedule_head": [e[:4] for e in res["log"][:25] if isinstance(e[0], int)]}
