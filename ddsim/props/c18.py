"""C18 - graph export is faithful and does not perturb the evaluation (engine P, twin histories + IR graph model)."""
import re

from ..core.util import new_scratch, rmtree
from ..pipe import gen, ir, hist, twin
from ..pipe.cone import Cones
from ..pipe.world import World
from . import c01

PROP = "C18"
LEVEL = "exploration"
DESIGN_REF = "DESIGN.md 7 (C18)"
BUDGETS = {"quick": 35.0, "thorough": 900.0}
CHUNK = 4
MINIMISE_BUDGET = 150
ORACLES = ("C18.",)
RULE = (
    "C01/C09 programs (nesting, shared sub-nodes, run-time-argument keeps, loads) and histories in which seeded "
    "evaluations request dds_export_graph=<file>.dot (the real pydotplus + graphviz 'dot' run); each history is also run "
    "as its twin without any export. Oracles: results, execution logs and committed signatures equal the twin's, export "
    "succeeds whenever the twin evaluates; the dot text parsed back is acyclic, its nodes are the kept paths of the "
    "evaluation plus paths loaded by kept functions, solid edge u->v iff the function kept at v reaches the keep of u "
    "without crossing another kept function (computed on the generator's IR), dashed iff it loads u, every other edge is "
    "dotted and joins a keep with run-time arguments to an earlier sibling. The graph clause is a function of the "
    "program (programs are sampled); the non-perturbation clause is the twin-history oracle. Non-trivial: exported graph "
    "with >= 2 nodes and >= 1 edge; distinct = distinct (node set, edge set) shapes."
)
COMPONENTS = {
    "real": c01.COMPONENTS["real"] + ["dds._plotting", "pydotplus", "graphviz dot binary"],
    "stub": c01.COMPONENTS["stub"] + ["dot text parser (regular expressions over graphviz output)"],
}
ASSUMPTIONS = c01.ASSUMPTIONS + ["graph exported in dot format only"]
PROBES = ["export_checked", "solid_edge", "dashed_edge", "dotted_edge", "shared_subnode", "export_on_cached_eval",
          "twin_ops_compared"]


def _feat(cfg, avoid=()):
    f = gen.swarm_feat(cfg, avoid)
    f["loads"] = cfg.random() < 0.5
    f["p_load_never"] = 0.0
    f["deep_loads"] = cfg.random() < 0.6
    f["rt_args"] = cfg.random() < 0.7
    f["share"] = cfg.choice([0.3, 0.6])
    f["phelpers"] = cfg.random() < 0.5
    return f


PROFILE = {
    "feat": _feat,
    "edits": ["var", "ver", "lit", "rtx", "comment"],
    "n": (2, 7),
    "p_restart": 0.5,
    "stores": ("local", "memory", "local+cache"),
}


def gen_case(streams, tier, avoid):
    prof = dict(PROFILE)
    prof["avoid"] = avoid
    case = hist.gen_history(streams, tier, prof)
    f = streams.get("faults")
    case["one_graph_file"] = f.random() < 0.5
    if f.random() < 0.25:
        _add_chain(case, f)
    p_exp = 0.9 if case["one_graph_file"] else 0.6
    for op in case["ops"]:
        if op["op"] == "eval" and f.random() < p_exp:
            op["style"] = "eval"
            op["opts"] = {"dds_export_graph": "dot"}
            if f.random() < 0.3:
                op["opts"]["dds_extra_debug"] = True
    return case


def _add_chain(case, rng):
    """An entry point whose body reaches a shared kept node, then a chain of keeps that each take the previous result
    as a run-time argument, then a helper called with the last result that reaches the shared node again."""
    prog = case["prog"]
    used = set(gen.all_paths(prog))
    free = [p for p in gen.PATH_POOL if p not in used]
    n = rng.choice([2, 2, 3])
    if len(free) < n + 1 or "f90" in prog["funcs"]:
        return
    mod = prog["mods"][-1]

    def fn(name, kind, params=(), path=None):
        g = {"mod": mod, "kind": kind, "params": [list(p) for p in params], "ver": 1, "ret": "tuple", "pad": 0, "body": [],
             "comment": 0, "end": False}
        if path:
            g["path"] = path
        prog["funcs"][name] = g
        prog["order"].append(name)
        return g

    fn("f90", "data", path=free[0])
    for k in range(n):
        fn(f"f9{k + 1}", "target", params=[["a0", ir.NODEFAULT]])
    h = fn("f95", "plain", params=[["x", ir.NODEFAULT]])
    h["phelper"] = True
    h["body"].append({"t": "call", "f": "f90", "form": "direct"})
    e = fn("f96", "plain")
    e["body"].append({"t": "call", "f": "f90", "form": "direct"})
    for k in range(n):
        e["body"].append({"t": "keep", "path": free[k + 1], "f": f"f9{k + 1}", "args": [{"k": "rt", "e": f"r{k}"}]})
    e["body"].append({"t": "call", "f": "f95", "form": "direct", "rtarg": f"r{n}"})
    at = rng.randrange(len(case["ops"]) + 1)
    case["ops"].insert(at, {"op": "eval", "entry": "f96", "style": "eval", "opts": {"dds_export_graph": "dot"}})


NODE_RE = re.compile(r'^\s*"?(/[^"\s\[;]*)"?\s*\[(.*)\];?\s*$')
EDGE_RE = re.compile(r'^\s*"?(/[^"\s]*)"?\s*->\s*"?(/[^"\s\[]*)"?\s*\[(.*)\];?\s*$')


def parse_dot(text):
    # join continuation lines of attribute lists
    joined = []
    buf = ""
    for line in text.split("\n"):
        buf += line.strip()
        if buf.count("[") > buf.count("]"):
            buf += " "
            continue
        joined.append(buf)
        buf = ""
    nodes, edges = set(), []
    for line in joined:
        m = EDGE_RE.match(line)
        if m:
            st = re.search(r"style=\"?(\w+)\"?", m.group(3))
            edges.append((m.group(1), m.group(2), st.group(1) if st else "solid"))
            continue
        m = NODE_RE.match(line)
        if m:
            nodes.add(m.group(1))
    return nodes, edges


def model_graph(prog, entry):
    """Expected nodes / solid / dashed edges from the IR; also the set of permissible dotted edges."""
    cones = Cones(prog, entry=entry)
    funcs = prog["funcs"]

    def region(fn, acc_kept, acc_loads, order):
        """Walks the body of fn; kept nodes encountered are boundaries."""
        for it in funcs[fn]["body"]:
            t = it["t"]
            if t == "keep":
                acc_kept.append((it["path"], it["f"], cones.static_binding(fn, funcs[fn]["body"].index(it)) is None))
            elif t in ("call", "ho"):
                g = funcs[it["f"]]
                if g["kind"] == "data":
                    acc_kept.append((g["path"], it["f"], False))
                elif g["kind"] == "class":
                    # a class instantiated with arguments is a call with run-time arguments for dds (constructor
                    # arguments are never analysed): the kept nodes reached below it carry its call-order dependence
                    sub = []
                    region(it["f"], sub, acc_loads, order)
                    acc_kept.extend((p, fn_, "class") for (p, fn_, _) in sub)
                elif g.get("phelper") and str(it.get("rtarg", "1"))[:1] in "rxa" and str(it.get("rtarg"))[:1].isalpha():
                    # a plain helper called with a local: a call with a run-time argument, the kept nodes reached
                    # below it carry its call-order dependence on the earlier nodes of this body
                    sub = []
                    region(it["f"], sub, acc_loads, order)
                    acc_kept.extend((p, fn_, rt_ or True) for (p, fn_, rt_) in sub)
                else:
                    region(it["f"], acc_kept, acc_loads, order)
            elif t == "load":
                acc_loads.append(it["path"])

    nodes, solid, dashed, dotted_ok = set(), set(), set(), set()
    seen = set()

    def visit_kept(path, fn):
        if path in seen:
            return
        seen.add(path)
        nodes.add(path)
        kept, loads = [], []
        region(fn, kept, loads, None)
        for (p, g, rt) in kept:
            solid.add((p, path))
            visit_kept(p, g)
        for p in loads:
            nodes.add(p)
            dashed.add((p, path))
        sib(kept)

    def sib(kept):
        for j, (p, g, rt) in enumerate(kept):
            if rt == "class":
                # `C(x).m()` is two consecutive context-dependent interactions holding the same set of nodes: dds orders
                # that set by signature, so the call-order edge may join any other node of the body to this one
                for (q, _, _) in kept:
                    if q != p:
                        dotted_ok.add((q, p))
            elif rt:
                for (q, _, _) in kept[:j]:
                    if q != p:
                        dotted_ok.add((q, p))

    f = funcs[entry]
    if f["kind"] == "data":
        visit_kept(f["path"], entry)
    else:
        kept, loads = [], []
        region(entry, kept, loads, None)
        for (p, g, rt) in kept:
            visit_kept(p, g)
        sib(kept)
    return nodes, solid, dashed, dotted_ok


def _acyclic(edges):
    adj = {}
    for a, b, _ in edges:
        adj.setdefault(a, set()).add(b)
    state = {}

    def dfs(u):
        state[u] = 1
        for v in adj.get(u, ()):
            if state.get(v) == 1:
                return False
            if state.get(v) is None and not dfs(v):
                return False
        state[u] = 2
        return True

    return all(dfs(u) for u in list(adj) if state.get(u) is None)


def run_case(case):
    case = twin.with_ids(case)
    root1, root2 = new_scratch("p"), new_scratch("p2")
    try:
        w = World(case, root1)
        w.run()
        probes = dict(w.probes)

        def probe(n, c=1):
            probes[n] = probes.get(n, 0) + c

        import copy

        tcase = copy.deepcopy(case)
        for op in tcase["ops"]:
            if op["op"] == "eval" and op.get("opts"):
                op["opts"] = {}
        w2 = World(tcase, root2)
        w2.run()
        n = twin.compare_after(w, w2, -1, "C18.same", w.violate, subset_logs=False)
        probes["twin_ops_compared"] = n
        keys = set()
        nontrivial = False
        for o in w.obs:
            if o["op"] != "eval" or not o["opts"].get("dds_export_graph"):
                continue
            if o["ref"][0] != "ok":
                continue
            if o["res"][0] != "ok":
                continue   # reported by C18.same (the twin evaluates)
            if o["dot"] is None:
                w.violate("C18.graph", f"op {o['i']} eval {o['entry']}: no graph file was written")
                continue
            probe("export_checked")
            if not o["log"]:
                probe("export_on_cached_eval")
            prog = w.versions[o["ver"]]
            nodes, edges = parse_dot(o["dot"])
            en, es, ed, edot = model_graph(prog, o["entry"])
            solid = {(a, b) for a, b, s in edges if s == "solid"}
            dashed = {(a, b) for a, b, s in edges if s == "dashed"}
            other = [(a, b, s) for a, b, s in edges if s not in ("solid", "dashed")]
            probe("solid_edge", len(solid))
            probe("dashed_edge", len(dashed))
            probe("dotted_edge", len(other))
            if len({b for a, b in es}) < len(es) - len({a for a, b in es}) + 0:
                pass
            if any(sum(1 for (a, b) in es if a == x) > 1 for x in en):
                probe("shared_subnode")
            if len(nodes) >= 2 and edges:
                nontrivial = True
                keys.add(repr((sorted(nodes), sorted(edges))))
            where = f"op {o['i']} eval {o['entry']} (v{o['ver']})"
            if not _acyclic(edges):
                w.violate("C18.graph", f"{where}: exported graph has a cycle: {sorted(edges)}")
            if nodes != en:
                w.violate("C18.graph", f"{where}: nodes {sorted(nodes)} expected {sorted(en)}")
            if solid != es:
                w.violate("C18.graph", f"{where}: solid edges missing {sorted(es - solid)} unexpected {sorted(solid - es)}")
            ed = {e for e in ed if e not in es}   # one edge per ordered pair: a direct (solid) dependency takes precedence
            if dashed != ed:
                w.violate("C18.graph", f"{where}: dashed edges missing {sorted(ed - dashed)} unexpected {sorted(dashed - ed)}")
            for a, b, s in other:
                if s != "dotted":
                    w.violate("C18.graph", f"{where}: edge {a}->{b} has style {s}")
                elif (a, b) not in edot:
                    w.violate("C18.dotted", f"{where}: dotted edge {a}->{b} does not join a keep with run-time arguments to an earlier sibling")
        w.probes = probes
        res = c01.finish(w, ORACLES)
        res["nontrivial"] = nontrivial
        res["keys"] = sorted(keys)
        return res
    finally:
        rmtree(root1)
        rmtree(root2)


shrink = c01.shrink
tags = c01.tags
sample = c01.sample
