"""C01 - memoized evaluation returns exactly what plain execution would return (engine P)."""
from ..core.util import new_scratch, rmtree
from ..pipe import gen, hist
from ..pipe.world import World

PROP = "C01"
LEVEL = "exploration"
DESIGN_REF = "DESIGN.md 4, 7 (C01)"
BUDGETS = {"quick": 35.0, "thorough": 900.0}
CHUNK = 4
MINIMISE_BUDGET = 200
ORACLES = ("C01.", "C09.value")
RULE = (
    "seeded programs (3-8 functions over 1-3 modules of a package of depth 1-3: helpers, data functions, kept calls with "
    "literal / run-time / default / keyword arguments, tracked variables, import forms, higher-order references) driven "
    "through seeded histories of 3-12 operations (evaluate via dds.eval or direct data-function call, edits of every "
    "catalogue kind, revert, restart, store switch, chdir, in-process variable mutation) on memory / local / local+cache "
    "/ noop stores; every returned value is compared with a dds-free reference run of the same files. A run is "
    "non-trivial when some evaluation was served at least one kept result from the store after an edit, restart or "
    "revert; distinct = distinct run digests among those."
)
COMPONENTS = {
    "real": ["all of dds from /repo (introspection, hashing, _api, stores, codecs)", "CPython import system and inspect",
             "tmpfs"],
    "stub": ["dds-free reference shim (keep = call, load = path table in program order)", "generated programs",
             "rec() execution log in a non-accepted module"],
}
ASSUMPTIONS = [
    "generated programs are deterministic, total and stay inside the documented supported subset (no recursion, nested functions, *args, generators)",
    "a process sees one immutable source tree version; edits become visible through a restart (or an explicit in-process mutation)",
    "values are compared by canonical repr and type",
]
PROBES = ["cache_hit_after_edit", "revert", "all_cached", "location_evaluated:package", "location_evaluated:main",
          "location_evaluated:notebook", "notebook_redefinition"]

def _feat(cfg, avoid=()):
    f = gen.swarm_feat(cfg, avoid)
    # some programs also read kept paths back with dds.load (C09 owns the load-specific clauses; a wrong VALUE of
    # an evaluation that loads is reported here as well)
    f["loads"] = cfg.random() < 0.2
    f["p_load_never"] = 0.0
    return f


PROFILE = {
    "feat": _feat,
    "edits": hist.ALL_EDITS,
    "n": (3, 10),
    "p_restart": 0.75,
    "p_mutate": 0.08,
    "p_driver_keep": 0.15,
    "p_proc2": 0.3,
    "locations": ["package", "package", "package", "main", "notebook"],
}


def gen_case(streams, tier, avoid):
    prof = dict(PROFILE)
    prof["avoid"] = avoid
    if tier == "thorough":
        prof["n"] = (3, 14)
    case = hist.gen_history(streams, tier, prof)
    if case["feat"].get("loads"):
        # the no-op store cannot serve dds.load (documented): programs with loads run on the other store kinds
        if case["store"]["kind"] == "noop":
            case["store"] = {"kind": "local"}
        for op in case["ops"]:
            if op["op"] == "switch_store" and op["store"]["kind"] == "noop":
                op["store"] = {"kind": "memory"}
    return case


def run_case(case):
    root = new_scratch("p")
    try:
        w = World(case, root)
        w.run()
        return finish(w, ORACLES)
    finally:
        rmtree(root)


def finish(w, prefixes):
    viol = [v for v in w.violations if v["oracle"].startswith(tuple(prefixes))]
    hits = 0
    changed = False
    for o in w.obs:
        if o["op"] == "eval":
            if changed and o["res"][0] == "ok" and len(o["log"]) < len(o["reflog"]):
                hits += 1
        changed = True
    for e in w.log:
        pass
    probes = dict(w.probes)
    probes["location:" + w.case.get("location", "package")] = 1
    if any(o["op"] == "eval" and o["res"][0] == "ok" for o in w.obs):
        probes["location_evaluated:" + w.case.get("location", "package")] = 1
    if hits:
        probes["cache_hit_after_edit"] = hits
    return {"violations": viol, "probes": probes, "faults": {}, "nontrivial": hits > 0, "log": w.log,
            "steps": len(w.case["ops"])}


def shrink(case):
    return hist.shrink_history(case)


def tags(case):
    return hist.feature_tags(case)


def sample(case, res):
    return {"program_files": "rendered from case.prog by ddsim.pipe.ir.render", "case": {k: v for k, v in case.items() if k != "_seed"},
            "seed": case.get("_seed"), "log_tail": res["log"][-6:]}
