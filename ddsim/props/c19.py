"""C19 - the DBFS store honours its commit type and keeps legacy blobs readable (engine K over a fake dbutils)."""
import copy
import json
import os
import pickle

from ..core.shrink import list_removals
from ..core.util import ensure_repo_on_path, new_scratch, quiet_process, rmtree
from ..storesim.values import Obj, canon

PROP = "C19"
LEVEL = "exploration"
DESIGN_REF = "DESIGN.md 6, 7 (C19)"
BUDGETS = {"quick": 30.0, "thorough": 600.0}
CHUNK = 16
RULE = (
    "seeded histories through the public API (dds.set_store('dbfs', ..., dbutils=<fake>, commit_type=<spelling>), "
    "dds.keep, dds.load, re-keep with another value, re-configuration with another commit type) for every documented "
    "commit type spelling (full / links_only / none, any letter case, and the default), value types str / bytes / None / "
    "picklable object, 1-3 segment paths; plus blobs pre-seeded in the fake file system whose metadata names a legacy "
    "codec reference (dbfs.string, dbfs.bytes, dbfs.pickle) fetched through DBFSStore and then committed to a path under a seeded commit type. Oracles: files present under the "
    "data directory per commit type (byte-identical copy + redirect record / record only / nothing), returned values, "
    "load whenever the record exists, legacy blobs decode to the value their kind of codec wrote. Non-trivial: at least "
    "one path re-kept with a different value or a commit-type switch; distinct = abstract histories."
)
COMPONENTS = {
    "real": ["dds.codecs.databricks.DBFSStore / CommitType / DBFSURI", "dds._api.set_store option decoding", "dds evaluation",
             "builtin codecs"],
    "stub": ["fake dbutils.fs: cp / head / put / rm over a directory, file:// bridged to local files"],
}
ASSUMPTIONS = ["the fake implements the subset of dbutils.fs dds calls (head raises on a missing file, put(overwrite=True) replaces); "
               "fidelity to Databricks is trusted, not checked", "Spark codecs are not exercised"]
PROBES = ["alias_paths_one_blob", "commit:full", "commit:links_only", "commit:none", "commit:default", "rekeep", "commit_type_switch", "legacy_blob",
          "legacy_blob_committed:full", "legacy_blob_committed:links_only", "legacy_blob_committed:none",
          "load_checked", "files_checked"]
SPELL = {"full": ["full", "FULL", "Full"], "links_only": ["links_only", "LINKS_ONLY", "Links_Only"],
         "none": ["none", "NONE", "None"], "default": [None]}
PATHS = ["/p", "/q", "/d/r", "/d/s", "/e/f/g"]
KINDS = ["str", "bytes", "obj", "none", "empty"]


def gen_case(streams, tier, avoid):
    cfg = streams.get("config")
    rng = streams.get("history")
    if cfg.random() < 0.2:
        return {"family": "legacy", "ref": cfg.choice(["dbfs.string", "dbfs.bytes", "dbfs.pickle"]),
                "n": cfg.randint(0, 50), "commit": cfg.choice(["full", "full", "links_only", "none"]),
                "path": cfg.choice(PATHS)}
    ct = cfg.choice(["full", "full", "links_only", "links_only", "none", "default"])
    ops = [["config", ct, cfg.choice(SPELL[ct])]]
    n = cfg.randint(2, 12)
    for _ in range(n):
        r = rng.random()
        if r < 0.1:
            # one evaluation keeping one result (one blob key) under two or three paths
            ops.append(["alias", rng.choice(["alias0", "alias1", "alias2"])])
        elif r < 0.55:
            ops.append(["keep", rng.choice(PATHS), rng.choice(KINDS), rng.randint(0, 5)])
        elif r < 0.9:
            ops.append(["load", rng.choice(PATHS + ["/al/x", "/al/y", "/am/z"])])
        else:
            ct2 = rng.choice(["full", "links_only", "none"])
            used = {o[1] for o in ops if o[0] == "config"}
            if ct2 == "full" and "links_only" in used and "switch:links_only->full" in avoid and cfg.random() >= 0.06:
                ct2 = "links_only"
            ops.append(["config", ct2, rng.choice(SPELL[ct2])])
    return {"family": "api", "ops": ops}


def run_case(case):
    ensure_repo_on_path()
    quiet_process()
    root = new_scratch("c19")
    try:
        if case["family"] == "legacy":
            return _run_legacy(case, root)
        return _run_api(case, root)
    finally:
        rmtree(root)


def _blob_bytes(v):
    if isinstance(v, str):
        return v.encode("utf-8")
    if isinstance(v, (bytes, bytearray)):
        return bytes(v)
    return None


def _run_api(case, root):
    import dds
    import ddsim.storesim.apifuns as af
    from ..storesim.fakedbutils import FakeDbutils

    dds.accept_module("ddsim.storesim.apifuns")
    fake = FakeDbutils(root)
    data = os.path.join(root, "dbfs", "data")
    log, violations, probes = [], [], {}
    table = {}        # path -> value (whenever a redirect record must exist)
    expect_copy = {}  # path -> value expected as a plain copy under data dir
    ct = None
    nontrivial = False
    akey = []

    def probe(n):
        probes[n] = probes.get(n, 0) + 1

    for step, op in enumerate(case["ops"]):
        k = op[0]
        if k == "config":
            try:
                kw = {} if op[2] is None else {"commit_type": op[2]}
                dds.set_store("dbfs", internal_dir="dbfs:/int", data_dir="dbfs:/data", dbutils=fake, **kw)
                if ct is not None and ct != op[1]:
                    probe("commit_type_switch")
                    nontrivial = True
                ct = "full" if op[1] == "default" else op[1]
                probe("commit:" + op[1])
                log.append([step, op, "ok"])
            except BaseException as e:  # noqa
                violations.append({"oracle": "C19.accept", "tags": ["commit:" + op[1]],
                                   "detail": f"step {step}: documented commit type {op[2]!r} rejected: {type(e).__name__}: {str(e)[:150]}"})
                log.append([step, op, type(e).__name__])
                break
            akey.append(["config", op[1]])
            continue
        if k == "alias":
            fn = op[1]
            spec = af.ALIASES[fn]
            probe("alias_paths_one_blob")
            try:
                got = dds.eval(getattr(af, fn))
            except BaseException as e:  # noqa
                violations.append({"oracle": "C19.value", "tags": ["commit:" + ct, "alias"],
                                   "detail": f"step {step} eval {fn} under {ct}: raised {type(e).__name__}: {str(e)[:200]}"})
                break
            expv = tuple(af.make_val(kd, n) for (_, kd, n) in spec)
            if canon(got) != canon(expv):
                violations.append({"oracle": "C19.value", "tags": ["commit:" + ct, "alias"],
                                   "detail": f"step {step} eval {fn} under {ct}: returned {canon(got)[:80]} expected {canon(expv)[:80]}"})
            for (path, kd, n) in spec:
                exp = af.make_val(kd, n)
                if ct in ("full", "links_only"):
                    if path in table and canon(table[path]) != canon(exp):
                        probe("rekeep")
                        nontrivial = True
                    table[path] = exp
                rel = path.lstrip("/")
                rec_p = os.path.join(data, "_dds_meta", rel)
                obj_p = os.path.join(data, rel)
                if ct in ("full", "links_only") and not os.path.isfile(rec_p):
                    violations.append({"oracle": "C19.files", "tags": ["commit:" + ct, "alias"],
                                       "detail": f"step {step} eval {fn} under {ct}: no redirect record at <data>/_dds_meta/{rel}"})
                if ct == "full":
                    if not os.path.isfile(obj_p):
                        violations.append({"oracle": "C19.files", "tags": ["commit:full", "alias"],
                                           "detail": f"step {step} eval {fn} under full: no copy at <data>/{rel}"})
                    else:
                        raw = open(obj_p, "rb").read()
                        bb = _blob_bytes(exp)
                        if not ((raw == bb) if bb is not None else (pickle.loads(raw) == exp)):
                            violations.append({"oracle": "C19.files", "tags": ["commit:full", "alias"],
                                               "detail": f"step {step} eval {fn} under full: copy at <data>/{rel} is not the kept value"})
            log.append([step, op, canon(got)[:60]])
            akey.append(["alias", fn, ct])
        elif k == "keep":
            _, path, kind, n = op
            exp = af.make_val(kind, n)
            try:
                got = dds.keep(path, af.make_val, kind, n)
            except BaseException as e:  # noqa
                violations.append({"oracle": "C19.value", "tags": ["commit:" + ct],
                                   "detail": f"step {step} keep {path} ({kind},{n}) under {ct}: raised {type(e).__name__}: {str(e)[:200]}"})
                break
            if canon(got) != canon(exp):
                violations.append({"oracle": "C19.value", "tags": ["commit:" + ct],
                                   "detail": f"step {step} keep {path} under {ct}: returned {canon(got)[:80]} expected {canon(exp)[:80]}"})
            if ct in ("full", "links_only"):
                if path in table and canon(table[path]) != canon(exp):
                    probe("rekeep")
                    nontrivial = True
                table[path] = exp
            if ct == "full":
                expect_copy[path] = exp
            elif ct == "links_only":
                pass   # an older full copy may remain; only the record is required to follow
            # ---- files under the data directory
            probe("files_checked")
            rel = path.lstrip("/")
            rec_p = os.path.join(data, "_dds_meta", rel)
            obj_p = os.path.join(data, rel)
            if ct in ("full", "links_only"):
                if not os.path.isfile(rec_p):
                    violations.append({"oracle": "C19.files", "tags": ["commit:" + ct],
                                       "detail": f"step {step} keep {path} under {ct}: no redirect record at <data>/_dds_meta/{rel}"})
            if ct == "full":
                if not os.path.isfile(obj_p):
                    violations.append({"oracle": "C19.files", "tags": ["commit:full"],
                                       "detail": f"step {step} keep {path} under full: no copy at <data>/{rel}"})
                else:
                    raw = open(obj_p, "rb").read()
                    bb = _blob_bytes(exp)
                    ok = (raw == bb) if bb is not None else (pickle.loads(raw) == exp)
                    if not ok:
                        violations.append({"oracle": "C19.files", "tags": ["commit:full"],
                                           "detail": f"step {step} keep {path} under full: copy at <data>/{rel} is not the kept value"})
            if ct == "none" and path not in table:
                if os.path.exists(rec_p) or os.path.exists(obj_p):
                    violations.append({"oracle": "C19.files", "tags": ["commit:none"],
                                       "detail": f"step {step} keep {path} under none: files were written under the data directory"})
            log.append([step, op, canon(got)[:60]])
            akey.append(["keep", path in table, ct])
        elif k == "load":
            path = op[1]
            try:
                got = ["ok", canon(dds.load(path))]
            except BaseException as e:  # noqa
                got = ["exc", type(e).__name__]
            log.append([step, op, got])
            akey.append(["load", path in table])
            if path in table:
                probe("load_checked")
                if got != ["ok", canon(table[path])]:
                    violations.append({"oracle": "C19.load", "tags": ["commit:" + str(ct)],
                                       "detail": f"step {step} load {path}: {got} expected {canon(table[path])[:80]} (record exists)"})
            elif got[0] == "ok":
                violations.append({"oracle": "C19.load", "tags": ["commit:" + str(ct)],
                                   "detail": f"step {step} load {path}: returned {got[1][:60]} although no record was ever written"})
        if violations:
            break
    return {"violations": violations[:3], "log": log, "probes": probes, "faults": {}, "nontrivial": nontrivial,
            "key": repr(akey), "steps": len(case["ops"])}


def _run_legacy(case, root):
    from dds.codecs.databricks import CommitType, DBFSStore, DBFSURI

    from ..storesim.fakedbutils import FakeDbutils

    fake = FakeDbutils(root)
    ct = case.get("commit", "full")
    store = DBFSStore(DBFSURI.parse("dbfs:/int"), DBFSURI.parse("dbfs:/data"), fake,
                      {"full": CommitType.FULL, "links_only": CommitType.LINK_ONLY, "none": CommitType.NO_COMMIT}[ct])
    ref, n = case["ref"], case["n"]
    if ref == "dbfs.string":
        val = f"legacy-é-{n}"
        raw = val.encode("utf-8")
    elif ref == "dbfs.bytes":
        val = bytes([n, 1, 2, 255])
        raw = val
    else:
        val = Obj(n, "legacy")
        raw = pickle.dumps(val)
    key = f"legacykey{n}"
    bdir = os.path.join(root, "dbfs", "int", "blobs")
    os.makedirs(bdir, exist_ok=True)
    with open(os.path.join(bdir, key), "wb") as f:
        f.write(raw)
    with open(os.path.join(bdir, key + ".meta"), "w") as f:
        json.dump({"protocol": ref, "timestamp_millis": 1}, f)
    violations = []
    try:
        got = ["ok", canon(store.fetch_blob(key))]
    except BaseException as e:  # noqa
        got = ["exc", type(e).__name__, str(e)[:150]]
    if got != ["ok", canon(val)]:
        violations.append({"oracle": "C19.legacy", "tags": ["legacy:" + ref],
                           "detail": f"blob written by the legacy codec {ref} is read back as {str(got)[:160]} instead of {canon(val)[:80]}"})
    # a path committed to the legacy blob (a result computed before the upgrade is kept again): the commit type is
    # honoured for it like for any other blob
    log = [["legacy", ref, n, got]]
    probes = {"legacy_blob": 1}
    if not violations and case.get("path"):
        from collections import OrderedDict

        path = case["path"]
        rel = path.lstrip("/")
        data = os.path.join(root, "dbfs", "data")
        rec_p = os.path.join(data, "_dds_meta", rel)
        obj_p = os.path.join(data, rel)
        probes["legacy_blob_committed:" + ct] = 1
        try:
            store.sync_paths(OrderedDict([(path, key)]))
            res = "ok"
        except BaseException as e:  # noqa
            res = f"{type(e).__name__}: {str(e)[:120]}"
            violations.append({"oracle": "C19.legacy", "tags": ["legacy:" + ref, "commit:" + ct],
                               "detail": f"committing {path} to a blob written by the legacy codec {ref} under {ct} raised {res}"})
        log.append(["sync", path, ct, res])
        if not violations:
            if ct in ("full", "links_only") and not os.path.isfile(rec_p):
                violations.append({"oracle": "C19.files", "tags": ["legacy:" + ref, "commit:" + ct],
                                   "detail": f"legacy blob ({ref}) committed to {path} under {ct}: no redirect record at <data>/_dds_meta/{rel}"})
            if ct == "full":
                if not os.path.isfile(obj_p):
                    violations.append({"oracle": "C19.files", "tags": ["legacy:" + ref, "commit:full"],
                                       "detail": f"legacy blob ({ref}) committed to {path} under full: no copy at <data>/{rel}"})
                elif open(obj_p, "rb").read() != raw:
                    violations.append({"oracle": "C19.files", "tags": ["legacy:" + ref, "commit:full"],
                                       "detail": f"legacy blob ({ref}) committed to {path} under full: the copy at <data>/{rel} is not byte-identical"})
            if ct == "none" and (os.path.exists(rec_p) or os.path.exists(obj_p)):
                violations.append({"oracle": "C19.files", "tags": ["legacy:" + ref, "commit:none"],
                                   "detail": f"legacy blob ({ref}) committed to {path} under none: files were written under the data directory"})
            if ct in ("full", "links_only") and not violations:
                try:
                    k2 = store.fetch_paths([path]).get(path)
                    got2 = ["ok", canon(store.fetch_blob(k2))]
                except BaseException as e:  # noqa
                    got2 = ["exc", type(e).__name__, str(e)[:120]]
                log.append(["load", path, got2])
                if got2 != ["ok", canon(val)]:
                    violations.append({"oracle": "C19.load", "tags": ["legacy:" + ref, "commit:" + ct],
                                       "detail": f"legacy blob ({ref}) committed to {path} under {ct} is loaded as {str(got2)[:150]}"})
    return {"violations": violations[:3], "log": log, "probes": probes, "faults": {},
            "nontrivial": True, "key": f"legacy:{ref}:{ct}", "steps": 2}


def shrink(case):
    if case["family"] != "api":
        return
    for ops in list_removals(case["ops"][1:]):
        c = copy.deepcopy(case)
        c["ops"] = [case["ops"][0]] + ops
        yield c


def tags(case):
    if case["family"] == "legacy":
        return ["legacy"]
    t = set()
    seen = []
    for op in case["ops"]:
        t.add("op:" + op[0])
        if op[0] == "alias":
            t.add("op:keep")       # an evaluation made of dds.keep calls
        if op[0] == "config":
            c = "full" if op[1] == "default" else op[1]
            for prev in seen:
                if prev != c:
                    t.add(f"switch:{prev}->{c}")
            seen.append(c)
    return sorted(t)


def sample(case, res):
    return {"case": {k: v for k, v in case.items() if k != "_seed"}, "seed": case.get("_seed"), "log_tail": res["log"][-5:]}
