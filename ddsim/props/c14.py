"""C14 - exactly the accepted modules are tracked (engine P; package shape is part of the configuration)."""
import copy

from ..core.util import new_scratch, rmtree
from ..pipe import gen, hist
from ..pipe.world import World
from . import c01

PROP = "C14"
LEVEL = "exploration"
DESIGN_REF = "DESIGN.md 7 (C14)"
BUDGETS = {"quick": 35.0, "thorough": 900.0}
CHUNK = 4
MINIMISE_BUDGET = 150
ORACLES = ("C14.",)
RULE = (
    "C01's programs placed in a package of depth 1-6 with the accepted prefix at a seeded depth, 0-40 further accepted "
    "(decoy) packages, and non-accepted code in a top-level module and in look-alike packages (<pkg>x, <pkg>_b, sibling "
    "<prefix>x / other below a non-accepted parent) referenced through module aliases. Histories of "
    "evaluate - edit - restart - evaluate with edits on both sides of the boundary. Oracles: an edit of non-accepted "
    "code leaves every captured signature unchanged; an edit of an accepted function body or tracked variable changes "
    "the signature of every kept path whose cone (DESIGN.md 4.1) contains it; a data function defined in a non-accepted "
    "module is refused with a DDSException naming the module, with an empty execution log. Non-trivial: a pair of "
    "evaluations of the same entry separated by exactly one classified edit was compared; distinct = run digests."
)
COMPONENTS = c01.COMPONENTS
ASSUMPTIONS = c01.ASSUMPTIONS + ["inside edits are body-text changes and value changes of variables of the documented basic kinds read by name"]
PROBES = ["nested_accepted_packages", "outside_edit_compared", "inside_edit_compared", "depth>=4", "accept_prefix_deep", "decoys>=10", "lookalike_module",
          "refusal_checked", "few_accepted_deep_module", "late_accept", "eval_before_accept", "lookalike_accepted_after"]


def _feat(cfg, avoid=()):
    f = gen.swarm_feat(cfg, avoid)
    f["depth"] = cfg.choice([1, 2, 3, 4, 5, 6])
    f["accept"] = cfg.randint(1, f["depth"])
    f["decoys"] = cfg.choice([0, 0, 1, 3, 10, 40])
    f["ext"] = True
    return f


PROFILE = {
    "feat": _feat,
    "edits": ["ext", "ver", "var", "ext", "unrelated", "lzver", "bfver"],
    "n": (4, 9),
    "p_restart": 1.0,
    "p_revert": 0.0,
    "stores": ("local", "memory", "local+cache"),
}


def gen_case(streams, tier, avoid):
    prof = dict(PROFILE)
    prof["avoid"] = avoid
    case = hist.gen_history(streams, tier, prof)
    cfg = streams.get("config")
    prog = case["prog"]
    if cfg.random() < 0.35:
        # look-alike ACCEPTED packages: the program lives in `pk_ext...`, and `pk` (a plain string prefix of it, not a
        # dotted prefix) and `pk_ext_more` are accepted after it
        prog["pkg"][0] = "pk_ext"
        prog["accept_after"] = ["pk", "pk_ext_more"][: cfg.randint(1, 2)]
    pkg, acc = prog["pkg"], prog["accept"]
    if cfg.random() < 0.35:
        # accepted packages nested in one another: names below the accepted prefix (existing sub-packages or not)
        base = ".".join(pkg[:acc])
        cands = [base + ".a", base + ".a0.b", base + ".m", base + ".lib", base + ".zz", base + "." + (pkg[acc] if acc < len(pkg) else "m0")]
        cfg.shuffle(cands)
        prog["accept_nested"] = cands[: cfg.randint(1, 3)]
        prog["accept_nested_first"] = cfg.random() < 0.5
    mods = ["extlib", f"{pkg[0]}x.lib", f"{pkg[0]}_b.lib"]
    if acc > 1:
        mods.append(".".join(pkg[:acc - 1] + [pkg[acc - 1] + "x", "lib"]))
        mods.append(".".join(pkg[:acc - 1] + ["other", "lib"]))
    cfg.shuffle(mods)
    prog["extmods"] = mods[: cfg.randint(1, len(mods))]
    rng = streams.get("program")
    for fn in sorted(prog["funcs"]):
        for it in prog["funcs"][fn]["body"]:
            if it["t"] in ("ext", "extvar"):
                it["m"] = rng.randrange(len(prog["extmods"]))
    # make consecutive evaluations use the same entry so that pairs can be compared
    ents = gen.entries(prog)
    e = cfg.choice(ents)
    for op in case["ops"]:
        if op["op"] == "eval" and cfg.random() < 0.8:
            op["entry"] = e
    if cfg.random() < 0.5:
        case["ops"].insert(cfg.randrange(len(case["ops"]) + 1), {"op": "exteval", "m": cfg.randrange(len(prog["extmods"]))})
    if cfg.random() < 0.3:
        # the package is accepted only after the process has already evaluated (or tried to evaluate) something
        case["late_accept"] = True
        ops = []
        fresh = True
        for op in case["ops"]:
            if op["op"] == "restart":
                fresh = True
                ops.append(op)
                continue
            if fresh and op["op"] in ("eval", "exteval", "mutate", "chdir"):
                if op["op"] == "eval" and cfg.random() < 0.7:
                    ops.append(dict(op))         # attempt before accepting
                ops.append({"op": "accept"})
                fresh = False
            ops.append(op)
        case["ops"] = ops
    return case


def run_case(case):
    root = new_scratch("p")
    try:
        w = World(case, root)
        w.run()
        probes = dict(w.probes)

        def probe(n):
            probes[n] = probes.get(n, 0) + 1

        prog = case["prog"]
        if len(prog["pkg"]) >= 4:
            probe("depth>=4")
        if prog["accept"] >= 3:
            probe("accept_prefix_deep")
        if prog.get("accept_nested"):
            probe("nested_accepted_packages")
        if prog.get("decoys", 0) >= 10:
            probe("decoys>=10")
        if prog.get("decoys", 0) == 0 and len(prog["pkg"]) >= 3:
            probe("few_accepted_deep_module")
        if any(m != "extlib" for m in prog.get("extmods", [])):
            probe("lookalike_module")
        if prog.get("accept_after"):
            probe("lookalike_accepted_after")
        # classify the edits between consecutive full evaluations of the same entry
        last = {}           # (store, entry) -> (obs, op index)
        edits_since = {}    # (store, entry) -> list of edits
        nontrivial = False
        idx_of = {}
        for k, op in enumerate(case["ops"]):
            idx_of[op.get("id", k)] = k
        for o in w.obs:
            if o["op"] == "eval" and o.get("pre_accept"):
                probe("eval_before_accept")
                # code of a package that is not accepted (yet) is either refused or, for a plain entry point, run as
                # plain python: it must never be served from the store or recorded under a path
                if o["res"][0] == "ok" and o["res"] != o["ref"]:
                    w.violate("C14.inside", f"op {o['i']} eval {o['entry']} before accept_module: returned {str(o['res'])[:200]} "
                                            f"plain execution returns {str(o['ref'])[:200]}")
        evs = [o for o in w.obs if o["op"] == "eval" and not o.get("fail") and not o["opts"] and not o.get("pre_accept")]
        for o in evs:
            key = (o["store"], o["entry"])
            if key in last and o["res"][0] == "ok" and last[key]["res"][0] == "ok" and o["sigs"] and last[key]["sigs"]:
                a, b = idx_of.get(last[key]["i"], last[key]["i"]), idx_of.get(o["i"], o["i"])
                between = case["ops"][a + 1:b]
                eds = [x["edit"] for x in between if x["op"] == "edit"]
                others = [x for x in between if x["op"] in ("revert", "mutate", "switch_store")]
                if len(eds) == 1 and not others and o["ver"] != last[key]["ver"]:
                    ed = eds[0]
                    s0, s1 = dict(last[key]["sigs"]), dict(o["sigs"])
                    f0, f1 = last[key]["fps"], o["fps"]
                    if ed["kind"] == "ext":
                        probe("outside_edit_compared")
                        nontrivial = True
                        if s0 != s1:
                            diff = sorted(p for p in set(s0) | set(s1) if s0.get(p) != s1.get(p))
                            w.violate("C14.outside", f"op {o['i']} eval {o['entry']}: an edit of non-accepted code ({ed}) changed "
                                                     f"the signature of {diff}")
                    elif ed["kind"] in ("ver", "var", "lzver", "bfver"):
                        probe("inside_edit_compared")
                        nontrivial = True
                        # lower bound of what a signature depends on: the static content of the kept function itself
                        # (own text, variables read by name, transitively called helpers / data functions). The call-site
                        # context of run-time bindings is deliberately left out: dds hashes only a prefix of the caller.
                        from ..pipe.cone import Cones
                        from ..pipe import ir as _ir

                        pb = w.versions[last[key]["ver"]]
                        cb = Cones(pb, entry=o["entry"])
                        prods = cb.producers()
                        for p in sorted(set(s0) & set(s1)):
                            if p not in prods:
                                continue
                            fn_kept = prods[p][1] if prods[p][0] == "data" else pb["funcs"][prods[p][1]]["body"][prods[p][2]]["f"]
                            sc = cb.sc(fn_kept)
                            if ed["kind"] == "ver":
                                if ed["f"] not in pb["funcs"]:
                                    continue
                                member = ("text", "\n".join(_ir.render_func(pb, ed["f"])))
                                hit = member in sc
                            elif ed["kind"] == "bfver":
                                hit = any(m[0] == "helper" and m[1] in _ir.BUILTIN_NAMES for m in sc)
                            elif ed["kind"] == "lzver":
                                hit = any(m[0] == "lazy" for m in sc)      # the lazily imported accepted library
                            else:
                                hit = any(m[0] == "var" and m[1].split(".")[-1] == ed["name"] for m in sc)
                            if hit and s0[p] == s1[p]:
                                w.violate("C14.inside", f"op {o['i']} eval {o['entry']}: edit {ed} of accepted code is part of the "
                                                        f"static content of the function kept at {p} but its signature did not change "
                                                        f"(package {'.'.join(prog['pkg'])}, accepted prefix depth {prog['accept']}, "
                                                        f"{prog.get('decoys', 0)} decoys)")
            last[key] = o
        for o in evs:
            if o["ref"][0] == "ok" and o["res"][0] == "ok" and o["res"] != o["ref"]:
                w.violate("C14.inside", f"op {o['i']} eval {o['entry']}: accepted code returned the stale / wrong value {str(o['res'])[:200]} "
                                        f"(plain execution: {str(o['ref'])[:200]})")
            if o["ref"][0] == "ok" and o["res"][0] != "ok":
                w.violate("C14.inside", f"op {o['i']} eval {o['entry']}: code of the accepted package {'.'.join(prog['pkg'][:prog['accept']])} "
                                        f"(module depth {len(prog['pkg']) + 1}, {prog.get('decoys', 0)} decoys) was not evaluated: {str(o['res'])[:300]}")
        for o in w.obs:
            if o["op"] == "exteval":
                probe("refusal_checked")
                em = o["module"]
                r = o["res"]
                if r[0] != "exc" or r[1] != "DDSException":
                    w.violate("C14.refuse", f"op {o['i']}: data function of non-accepted module {em} was not refused: {str(r)[:300]}")
                else:
                    msg = r[3]
                    if em.split(".")[0] not in msg or em.split(".")[-1] not in msg:
                        w.violate("C14.refuse", f"op {o['i']}: refusal does not name module {em}: {msg[:200]}")
                if o["log"]:
                    w.violate("C14.refuse", f"op {o['i']}: data function of non-accepted module {em} was executed: {o['log']}")
        w.probes = probes
        res = c01.finish(w, ORACLES)
        res["nontrivial"] = nontrivial
        return res
    finally:
        rmtree(root)


shrink = c01.shrink


def tags(case):
    t = set(hist.feature_tags(case))
    p = case["prog"]
    t.add(f"depth:{len(p['pkg'])}")
    t.add(f"acceptdepth:{p['accept']}")
    t.add("decoys:" + ("0" if not p.get("decoys") else "some"))
    if p.get("accept_nested"):
        t.add("accept:nested")
    return sorted(t)


sample = c01.sample
