"""C09 - dds.load always sees the latest kept value and invalidates its readers (engine P)."""
from ..core.util import new_scratch, rmtree
from ..pipe import gen, hist
from ..pipe.world import World
from . import c01

PROP = "C09"
LEVEL = "exploration"
DESIGN_REF = "DESIGN.md 4, 7 (C09)"
BUDGETS = {"quick": 35.0, "thorough": 900.0}
CHUNK = 4
MINIMISE_BUDGET = 200
ORACLES = ("C09.",)
RULE = (
    "C01's generator with dds.load items at seeded placements (top level of the evaluated function, nested helper, "
    "inside a kept function); the loaded path is produced by a data function or keep call earlier or later in the same "
    "evaluation, by another entry point evaluated earlier in the history, or by nothing; histories edit the producer's "
    "dependencies, restart, and run on fresh and populated stores. Oracles: value == dds-free reference with a "
    "program-order path table; a kept reader executes again only if its cone (including the fingerprint of what the "
    "loaded path serves) changed; read-before-produce and loads of never-produced paths must raise a DDSException. "
    "Non-trivial: the evaluation contained a load that the reference resolved; distinct = run digests."
)
COMPONENTS = c01.COMPONENTS
ASSUMPTIONS = c01.ASSUMPTIONS
PROBES = ["eval_with_load", "load_of_path_produced_in_same_eval", "load_of_path_from_earlier_eval",
          "read_before_produce", "load_of_never_produced_path", "stored_node_seen_again"]


def _feat(cfg, avoid=()):
    f = gen.swarm_feat(cfg, avoid)
    f["loads"] = True
    f["p_load_never"] = cfg.choice([0.0, 0.1, 0.3])
    return f


PROFILE = {
    "feat": _feat,
    "edits": ["var", "ver", "lit", "rtx", "comment", "unrelated", "default", "addload", "addload"],
    "n": (3, 10),
    "locations": ["package", "package", "package", "main", "notebook"],
    "p_restart": 0.7,
    "p_proc2": 0.35,
    "p_driver_keep": 0.15,
    "stores": ("local", "local", "local+cache", "memory"),
}


def gen_case(streams, tier, avoid):
    prof = dict(PROFILE)
    prof["avoid"] = avoid
    return hist.gen_history(streams, tier, prof)


def run_case(case):
    root = new_scratch("p")
    try:
        w = World(case, root)
        w.run()
        res = c01.finish(w, ORACLES)
        res["nontrivial"] = w.probes.get("eval_with_load", 0) > 0
        return res
    finally:
        rmtree(root)


shrink = c01.shrink
tags = c01.tags
sample = c01.sample
