"""C11 - ill-formed evaluations are rejected before anything runs, whatever the order (engine P)."""
from ..core.util import new_scratch, rmtree
from ..pipe import gen, hist, twin, ir
from ..pipe.world import World
from . import c01

PROP = "C11"
LEVEL = "exploration"
DESIGN_REF = "DESIGN.md 7 (C11)"
BUDGETS = {"quick": 35.0, "thorough": 900.0}
CHUNK = 4
MINIMISE_BUDGET = 150
ORACLES = ("C11.",)
RULE = (
    "C01's programs extended with 1-3 ill-formed entry points: 2-4 kept paths over a small segment alphabet (a, b, ab, c) "
    "of which one is a strict prefix of another, in seeded order, adjacent or separated by unrelated paths, at different "
    "nesting depths; call cycles of length 1-4 through plain calls, keeps, higher-order references and methods; dds.eval nested "
    "0-2 calls deep. They are evaluated (dds.eval or direct data-function call) at seeded positions of an otherwise "
    "valid history (populated store, same process as the valid evaluations, before / after edits and restarts). "
    "Oracles: DDSException with the corresponding error code, empty execution log, store snapshot unchanged, and the "
    "rest of the history identical to the twin history without the ill-formed evaluations. Placements are sampled, not "
    "enumerated. Non-trivial: the ill-formed evaluation ran on a populated store and was followed by at least one "
    "compared operation; distinct = run digests."
)
COMPONENTS = c01.COMPONENTS
ASSUMPTIONS = c01.ASSUMPTIONS
PROBES = ["late_accept", "overlap_top", "overlap", "overlap_separated", "overlap_long_first", "cycle", "cycle_len>=3", "cycle_through_keep_or_ho",
          "cycle_through_method",
          "evalineval", "evalineval_nested", "ill_on_populated_store", "twin_ops_compared"]

PROFILE = {
    "feat": gen.swarm_feat,
    "edits": ["var", "ver", "lit", "comment", "unrelated"],
    "n": (3, 7),
    "p_restart": 0.4,
    "stores": ("local", "local", "local+cache", "memory"),
}


def gen_case(streams, tier, avoid):
    prof = dict(PROFILE)
    prof["avoid"] = avoid
    case = hist.gen_history(streams, tier, prof)
    f = streams.get("faults")
    nill = f.choice([1, 1, 2, 3])
    for t in range(nill):
        kind = f.choice(["overlap", "overlap", "cycle", "cycle", "evalineval", "overlap_top"])
        if kind == "overlap_top":
            # a well-formed function that keeps an inner path is first kept by the driver under an unrelated path
            # (accepted, stored), then under a path that is a strict prefix / extension of its inner path
            prog = case["prog"]
            mod = f.choice(prog["mods"])
            gn, ln = f"b{t}t", f"b{t}l"
            gen._ill_fn(prog, ln, mod, "target", params=[["a", ir.NODEFAULT]])
            g = gen._ill_fn(prog, gn, mod, "plain")
            inner = f"/ot{t}/x/y"
            g["body"].append({"t": "keep", "path": inner, "f": ln, "args": [{"k": "lit", "v": 1}]})
            bad = f.choice([f"/ot{t}/x", f"/ot{t}", inner + "/v2"])
            pos = f.randrange(0, len(case["ops"]) + 1)
            case["ops"].insert(pos, {"op": "illeval", "entry": gn, "style": "keep", "path": f"/ok{t}/top", "expect": None,
                                     "kind": kind})
            extra = [{"op": "restart"}] if f.random() < 0.4 else []
            case["ops"][pos + 1:pos + 1] = extra + [{"op": "illeval", "entry": gn, "style": "keep", "path": bad,
                                                     "expect": "OVERLAPPING_PATH", "kind": kind}]
            continue
        entry, expect = gen.add_ill(case["prog"], f, kind, t, avoid=[a.lstrip("!") for a in avoid]
                                    if f.random() >= 0.06 else [])
        pos = f.randrange(0, len(case["ops"]) + 1)
        case["ops"].insert(pos, {"op": "illeval", "entry": entry, "style": f.choice(["eval", "call"]),
                                 "expect": expect, "kind": kind})
    if f.random() < 0.25 and not any(op.get("proc") for op in case["ops"]):
        # the package is accepted only after the process has started - and sometimes after it has already looked at
        # (dry run, analysis only) the very functions it is going to reject
        case["late_accept"] = True
        ops, fresh = [], True
        for op in case["ops"]:
            if op["op"] == "restart":
                fresh = True
                ops.append(op)
                continue
            if fresh and op["op"] in ("eval", "illeval", "mutate", "chdir", "load"):
                if op["op"] in ("eval", "illeval") and f.random() < 0.7:
                    ops.append({"op": "eval", "entry": op["entry"], "style": "eval", "opts": {"dds_stages": ["analysis"]}})
                ops.append({"op": "accept"})
                fresh = False
            ops.append(op)
        case["ops"] = ops
    return case


def _overlap_shape(prog, entry):
    """(paths in static call order) of the overlap entry."""
    out = []

    def walk(fn):
        for it in prog["funcs"][fn]["body"]:
            if it["t"] == "keep":
                out.append(it["path"])
                walk(it["f"])
            elif it["t"] == "call":
                walk(it["f"])

    walk(entry)
    return out


def run_case(case):
    case = twin.with_ids(case)
    root1, root2 = new_scratch("p"), new_scratch("p2")
    try:
        w = World(case, root1)
        w.run()
        probes = dict(w.probes)

        def probe(n):
            probes[n] = probes.get(n, 0) + 1

        ills = [o for o in w.obs if o["op"] == "illeval"]
        nontrivial = False
        for o in ills:
            kind = next(op["kind"] for op in case["ops"] if op.get("id") == o["i"])
            probe(kind)
            prog = w.versions[0]
            if o["entry"] in prog["funcs"]:
                if kind == "overlap":
                    ps = _overlap_shape(prog, o["entry"])
                    pre = [(a, b) for a in ps for b in ps if b.startswith(a + "/")]
                    for a, b in pre:
                        if abs(ps.index(a) - ps.index(b)) > 1:
                            probe("overlap_separated")
                        if ps.index(b) < ps.index(a):
                            probe("overlap_long_first")
                if kind == "cycle":
                    cyc = [fn for fn in prog["funcs"] if fn.startswith(o["entry"][:-1] + "c")]
                    if len(cyc) >= 3:
                        probe("cycle_len>=3")
                    if any(it["t"] in ("keep", "ho") for fn in cyc for it in prog["funcs"][fn]["body"]):
                        probe("cycle_through_keep_or_ho")
                    if any(fn.startswith(o["entry"][:-1] + "k") for fn in prog["funcs"]):
                        probe("cycle_through_method")
                if kind == "evalineval" and any(fn.startswith(o["entry"][:-1] + "h") for fn in prog["funcs"]):
                    probe("evalineval_nested")
            if o["snap_before"]["blobs"]:
                probe("ill_on_populated_store")
                nontrivial = True
            xt = []
            if kind == "cycle" and o["entry"] in prog["funcs"]:
                cyc = sorted(fn for fn in prog["funcs"] if fn.startswith(o["entry"][:-1] + "c"))
                if len(cyc) == 1 and any(it["t"] == "ho" for it in prog["funcs"][cyc[0]]["body"]):
                    xt.append("cycle:self-ho")
            r = o["res"]
            if o["expect"] is None:
                # the well-formed first keep of the overlap_top family: must simply succeed
                if r[0] != "ok":
                    w.violate("C11.code", f"op {o['i']} well-formed keep of {o['entry']} at {o.get('path')}: raised {str(r)[:300]}",
                              kind=kind, xtags=xt)
                continue
            if r[0] != "exc" or r[1] != "DDSException" or r[2] != o["expect"]:
                w.violate("C11.code", f"op {o['i']} ill-formed ({kind}) evaluation of {o['entry']} ({o['style']}): "
                                      f"expected DDSException {o['expect']}, got {str(r)[:300]}", kind=kind, xtags=xt)
            if o["log"]:
                w.violate("C11.noexec", f"op {o['i']} ill-formed ({kind}) evaluation of {o['entry']}: user functions ran: {o['log'][:8]}",
                          kind=kind, xtags=xt)
            if o["nstore_calls"] or o["nsync_calls"] or o["snap_after"] != o["snap_before"]:
                w.violate("C11.untouched", f"op {o['i']} ill-formed ({kind}) evaluation of {o['entry']}: store changed "
                                           f"(store_blob calls {o['nstore_calls']}, sync_paths calls {o['nsync_calls']})", kind=kind)
        if any(o["expect"] is not None for o in ills):
            tcase = twin.twin_of(case, lambda op: op["op"] == "illeval" and op.get("expect") is not None)
            w2 = World(tcase, root2)
            w2.run()
            n = twin.compare_after(w, w2, min(o["i"] for o in ills if o["expect"] is not None), "C11.twin", w.violate, subset_logs=False)
            probes["twin_ops_compared"] = n
        w.probes = probes
        res = c01.finish(w, ORACLES)
        for v in res["violations"]:
            if v.get("kind"):
                v["tags"] = ["ill:" + v["kind"]] + v.get("xtags", [])
        res["nontrivial"] = nontrivial
        return res
    finally:
        rmtree(root1)
        rmtree(root2)


shrink = c01.shrink
tags = c01.tags
sample = c01.sample
