"""C08 - stores round-trip blobs and paths; distinct paths never alias or escape (engine K, dictionary model)."""
import copy
import os

from ..core.shrink import list_removals
from ..core.util import ensure_repo_on_path, new_scratch, quiet_process, rmtree
from ..storesim.values import canon, mk_value

PROP = "C08"
LEVEL = "exploration"
DESIGN_REF = "DESIGN.md 6, 7 (C08)"
BUDGETS = {"quick": 30.0, "thorough": 600.0}
CHUNK = 32
RULE = (
    "seeded histories of <= 30 store operations (store / has / fetch blob, sync / fetch paths, re-open the store on the "
    "same directories, switch between two live store objects on the same directories) on MemoryStore, LocalFileStore, the cache-wrapped local store and DBFSStore over the fake dbutils, "
    "compared step by step with a dictionary model (blobs: key -> value, paths: tuple of non-empty segments -> key). "
    "Paths of 1-4 segments over {a, b, ab, a.b, 'a b', e-acute, '.', '..'} with doubled separators, prefix-free within a "
    "run; value types str / bytes / None / picklable object. A path with a '.' or '..' segment may be rejected with a "
    "DDSException (model unchanged) but must never alias or escape; after each sync on a local store every link created "
    "lies inside realpath(data_dir). Non-trivial: two live paths whose concatenated segments are equal, or a "
    "dot-segment was offered, or a re-open happened between a write and its read; distinct = abstract op sequences."
)
COMPONENTS = {
    "real": ["dds.store.MemoryStore / LocalFileStore", "dds._lru_store.LRUCacheStore", "dds.codecs.databricks.DBFSStore",
             "codecs", "tmpfs"],
    "stub": ["fake dbutils.fs (cp/head/put/rm over a directory)"],
}
ASSUMPTIONS = [
    "a key maps to one value within a history (content addressing)",
    "paths of one history are prefix-free (a path that is a strict prefix of another is C11's matter)",
    "paths are only committed to keys whose blob was stored (as dds itself does)",
    "fidelity of the fake dbutils to Databricks is trusted, not checked",
]
PROBES = ["clock_advanced", "second_live_store_object", "concat_ambiguous_paths_live", "dot_segment_offered", "dot_segment_rejected", "reopen_between_write_and_read",
          "store:memory", "store:local", "store:lru", "store:dbfs", "contain_checked"]
SEGS = ["a", "b", "ab", "a.b", "a b", "é", "c", ".a", ".ab", "a.", "r.tmp.csv", "x.tmp.1.ab"]
DOTS = [".", ".."]
STORES = ["memory", "local", "lru", "dbfs"]


def _gen_paths(rng, n, with_dots):
    out = []
    tries = 0
    while len(out) < n and tries < 100:
        tries += 1
        k = rng.randint(1, 4)
        segs = [rng.choice(SEGS) for _ in range(k)]
        if with_dots and rng.random() < 0.3:
            segs[rng.randrange(k)] = rng.choice(DOTS)
        t = tuple(segs)
        ok = True
        for o in out:
            m = min(len(o), len(t))
            if o[:m] == t[:m]:
                ok = False
        if ok:
            out.append(t)
    # bias: add a concatenation-ambiguous partner for one path
    if out and rng.random() < 0.6:
        for t in list(out):
            if len(t) >= 2 and all(s in ("a", "b") for s in t[:2]):
                cand = (t[0] + t[1],) + t[2:]
                if all(o[:min(len(o), len(cand))] != cand[:min(len(o), len(cand))] for o in out) and cand:
                    out.append(cand)
                    break
    # bias: a partner that differs only by a leading / trailing dot of one segment
    if out and rng.random() < 0.5:
        t = rng.choice(out)
        i = rng.randrange(len(t))
        if t[i] not in DOTS:
            s2 = t[i][1:] if t[i].startswith(".") and len(t[i]) > 1 else "." + t[i]
            cand = t[:i] + (s2,) + t[i + 1:]
            if cand not in out and all(o[:min(len(o), len(cand))] != cand[:min(len(o), len(cand))] for o in out):
                out.append(cand)
    return out


def _spell(rng, segs):
    sep = "//" if rng.random() < 0.15 else "/"
    return "/" + sep.join(segs)


def gen_case(streams, tier, avoid):
    cfg = streams.get("config")
    rng = streams.get("history")
    store = cfg.choice(STORES)
    nk = cfg.randint(2, 5)
    vals = {}
    for i in range(nk):
        vals[f"k{i}"] = cfg.choice([["str", "v%d" % i], ["str", ""], ["bytes", "00ff%02x" % i], ["none"], ["obj", i],
                                    ["str", "é%d" % i], ["str", "cr\r\nlf%d\r" % i]])
    # '.' / '..' segments: only where the store maps paths itself (the fake dbutils would resolve them through the
    # real file system, which says nothing about DBFS)
    paths = _gen_paths(cfg, cfg.randint(2, 6), with_dots=cfg.random() < 0.4 and store != "dbfs")
    spelled = [_spell(cfg, p) for p in paths]
    n = cfg.randint(4, 30 if tier == "quick" else 60)
    ops = []
    keys = sorted(vals)
    p_switch = cfg.choice([0.0, 0.04, 0.2, 0.35])
    p_clock = cfg.choice([0.0, 0.0, 0.08])
    for _ in range(n):
        if rng.random() < p_clock:
            ops.append(["clock", rng.choice([61.0, 7200.0, 86400.0 * 30])])     # simulated time passes
            continue
        if rng.random() < p_switch:
            ops.append(["switch"])     # continue with the other of two live store objects on the same directories
            continue
        r = rng.random()
        if r < 0.25:
            ops.append(["store", rng.choice(keys)])
        elif r < 0.4:
            ops.append(["has", rng.choice(keys)])
        elif r < 0.55:
            ops.append(["fetch", rng.choice(keys)])
        elif r < 0.75:
            k = rng.randint(1, 3)
            ops.append(["sync", [[rng.choice(spelled), rng.choice(keys)] for _ in range(k)]])
        elif r < 0.92:
            ops.append(["paths", [rng.choice(spelled) for _ in range(rng.randint(1, 2))]])
        else:
            ops.append(["reopen"])
    if store != "memory" and len(keys) >= 2 and cfg.random() < 0.2:
        # two writers alternating on one path: A commits k1, B commits k2, A commits k1 again
        pth = cfg.choice(spelled)
        k1, k2 = cfg.sample(keys, 2)
        pat = [["store", k1], ["store", k2], ["sync", [[pth, k1]]], ["switch"], ["sync", [[pth, k2]]], ["switch"],
               ["sync", [[pth, k1]]], ["paths", [pth]], ["switch"], ["paths", [pth]]]
        at = cfg.randint(0, len(ops))
        ops[at:at] = pat
    return {"store": store, "cap": cfg.choice([1, 2, 10]), "vals": vals, "ops": ops}


def _segs(p):
    return tuple(s for s in p.split("/") if s)


def _open(case, root):
    from dds.store import LocalFileStore, MemoryStore

    k = case["store"]
    if k == "memory":
        return MemoryStore()
    if k == "local":
        return LocalFileStore(os.path.join(root, "int"), os.path.join(root, "data"))
    if k == "lru":
        from dds._lru_store import LRUCacheStore

        return LRUCacheStore(LocalFileStore(os.path.join(root, "int"), os.path.join(root, "data")), num_elem=case["cap"])
    if k == "dbfs":
        from dds.codecs.databricks import CommitType, DBFSStore, DBFSURI

        from ..storesim.fakedbutils import FakeDbutils

        return DBFSStore(DBFSURI.parse("dbfs:/int"), DBFSURI.parse("dbfs:/data"), FakeDbutils(root), CommitType.FULL)
    raise ValueError(k)


def run_case(case):
    ensure_repo_on_path()
    quiet_process()
    from collections import OrderedDict

    from dds.structures import DDSException

    root = new_scratch("c08")
    import time as _time

    real_time = _time.time
    clock_off = [0.0]
    _time.time = lambda: real_time() + clock_off[0]       # the clock the library reads (file times stay real: files age)
    try:
        store = _open(case, root)
        objs = [store, None]      # two live store objects on the same directories (two processes, two sessions)
        cur = 0
        wsr = [set(), set()]
        vals = case["vals"]
        blobs = set()
        paths = {}       # segs tuple -> key
        log, violations, probes = [], [], {}
        akey = [case["store"]]
        written_since_reopen = set()
        nontrivial = False

        def probe(n):
            probes[n] = probes.get(n, 0) + 1

        probe("store:" + case["store"])
        for step, op in enumerate(case["ops"]):
            k = op[0]
            if k == "reopen":
                if case["store"] != "memory":
                    store = _open(case, root)
                    objs[cur] = store
                    written_since_reopen = set()
                    wsr[cur] = written_since_reopen
                    akey.append("R")
                log.append([step, "reopen"])
                continue
            if k == "clock":
                clock_off[0] += op[1]
                probe("clock_advanced")
                log.append([step, "clock", op[1]])
                akey.append("T")
                continue
            if k == "switch":
                if case["store"] != "memory":
                    wsr[cur] = written_since_reopen
                    cur = 1 - cur
                    if objs[cur] is None:
                        objs[cur] = _open(case, root)
                    store = objs[cur]
                    written_since_reopen = wsr[cur]
                    probe("second_live_store_object")
                    akey.append("S")
                log.append([step, "switch", cur])
                continue
            try:
                if k == "store":
                    store.store_blob(op[1], mk_value(vals[op[1]]), None)
                    blobs.add(op[1])
                    written_since_reopen.add(op[1])
                    res = ["ok", None]
                elif k == "has":
                    got = store.has_blob(op[1])
                    res = ["ok", got]
                    if got != (op[1] in blobs):
                        violations.append({"oracle": "C08.blob", "detail": f"step {step} has_blob({op[1]}) = {got}, model {op[1] in blobs}"})
                elif k == "fetch":
                    got = canon(store.fetch_blob(op[1]))
                    res = ["ok", got]
                    if op[1] in blobs:
                        if op[1] not in written_since_reopen:
                            probe("reopen_between_write_and_read")
                            nontrivial = True
                        exp = mk_value(vals[op[1]])
                        if got != canon(exp):
                            violations.append({"oracle": "C08.blob", "detail": f"step {step} fetch_blob({op[1]}) = {got[:80]}, stored {canon(exp)[:80]}"})
                elif k == "sync":
                    pairs = [(p, key) for p, key in op[1] if key in blobs]
                    # one operation must not contain two spellings of the same location with different keys
                    seen = {}
                    pairs = [(p, key) for p, key in pairs if seen.setdefault(_segs(p), key) == key]
                    dots = [p for p, _ in pairs if any(s in DOTS for s in _segs(p))]
                    if dots:
                        probe("dot_segment_offered")
                        nontrivial = True
                    try:
                        store.sync_paths(OrderedDict(pairs))
                        for p, key in pairs:
                            paths[_segs(p)] = key
                        res = ["ok", None]
                    except DDSException as e:
                        if not dots:
                            raise
                        probe("dot_segment_rejected")
                        res = ["rejected", str(e)[:80]]
                        # a rejected commit may have applied the pairs before the offending one
                        for p, key in pairs:
                            if any(s in DOTS for s in _segs(p)):
                                break
                            paths[_segs(p)] = key
                    if case["store"] in ("local", "lru"):
                        _check_contain(root, violations, step, probe)
                    live = list(paths)
                    if any("".join(a) == "".join(b) and a != b for i, a in enumerate(live) for b in live[i + 1:]):
                        probe("concat_ambiguous_paths_live")
                        nontrivial = True
                elif k == "paths":
                    ps = list(op[1])
                    known = all(_segs(p) in paths for p in ps)
                    dots = any(s in DOTS for p in ps for s in _segs(p))
                    try:
                        got = store.fetch_paths(ps)
                        res = ["ok", sorted((str(p), str(key)) for p, key in got.items())]
                        if known:
                            for p in ps:
                                if str(got.get(p)) != paths[_segs(p)]:
                                    violations.append({"oracle": "C08.path",
                                                       "detail": f"step {step} path {p!r} resolves to {got.get(p)} but was committed with {paths[_segs(p)]}"})
                        elif not dots:
                            unknown = [p for p in ps if _segs(p) not in paths]
                            violations.append({"oracle": "C08.path", "detail": f"step {step} fetch_paths({ps}) answered {res[1]} although {unknown} was never committed"})
                    except BaseException as e:  # noqa
                        res = ["exc", type(e).__name__]
                        if known and not dots:
                            violations.append({"oracle": "C08.path", "detail": f"step {step} fetch_paths({ps}) raised {type(e).__name__}: {str(e)[:120]} for committed paths"})
                else:
                    raise ValueError(op)
            except BaseException as e:  # noqa
                res = ["exc", type(e).__name__, str(e)[:200]]
                violations.append({"oracle": "C08.blob" if k in ("store", "has", "fetch") else "C08.path",
                                   "detail": f"step {step} {op} raised {type(e).__name__}: {str(e)[:200]}"})
            log.append([step, op, res])
            akey.append([k, res[0]])
            if violations:
                break
        return {"violations": violations[:3], "log": log, "probes": probes, "faults": {}, "nontrivial": nontrivial,
                "key": repr(akey), "steps": len(case["ops"])}
    finally:
        _time.time = real_time
        rmtree(root)


def _check_contain(root, violations, step, probe):
    data = os.path.realpath(os.path.join(root, "data"))
    probe("contain_checked")
    # every symlink created anywhere under the scratch root must live inside the data directory
    for dp, dns, fns in os.walk(root):
        for n in dns + fns:
            p = os.path.join(dp, n)
            if os.path.islink(p):
                parent = os.path.realpath(os.path.dirname(p))
                if not (parent == data or parent.startswith(data + os.sep)):
                    violations.append({"oracle": "C08.contain", "detail": f"step {step}: link {p} created outside the data directory"})


def shrink(case):
    for ops in list_removals(case["ops"], 1):
        c = copy.deepcopy(case)
        c["ops"] = ops
        yield c
    for i, op in enumerate(case["ops"]):
        if op[0] == "sync" and len(op[1]) > 1:
            for pairs in list_removals(op[1], 1):
                c = copy.deepcopy(case)
                c["ops"][i][1] = pairs
                yield c
    for st in ("memory", "local"):
        if case["store"] not in ("memory", st) and STORES.index(st) < STORES.index(case["store"]):
            c = copy.deepcopy(case)
            c["store"] = st
            yield c
    for k, v in sorted(case["vals"].items()):
        if v != ["str", "v"]:
            c = copy.deepcopy(case)
            c["vals"][k] = ["str", "v"]
            yield c


def tags(case):
    t = {"store:" + case["store"]}
    for op in case["ops"]:
        t.add("op:" + op[0])
        if op[0] in ("sync", "paths"):
            for p in (x[0] for x in op[1]) if op[0] == "sync" else op[1]:
                segs = _segs(p)
                if any(s in DOTS for s in segs):
                    t.add("path:dot-segment")
                if len(segs) > 1:
                    t.add("path:nested")
                if "//" in p:
                    t.add("path:double-separator")
                if any(" " in s or "é" in s for s in segs):
                    t.add("path:special-chars")
    return sorted(t)


def sample(case, res):
    return {"case": {k: v for k, v in case.items() if k != "_seed"}, "seed": case.get("_seed"), "log_tail": res["log"][-5:]}
