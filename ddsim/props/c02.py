"""C02 - nothing is recomputed unless something it depends on changed (engine P, cone-fingerprint oracle)."""
from ..core.util import new_scratch, rmtree
from ..pipe import gen, hist
from ..pipe.world import World
from . import c01

PROP = "C02"
LEVEL = "exploration"
DESIGN_REF = "DESIGN.md 4.1, 7 (C02)"
BUDGETS = {"quick": 35.0, "thorough": 900.0}
CHUNK = 4
MINIMISE_BUDGET = 200
ORACLES = ("C02.",)
RULE = (
    "same generator as C01 with histories biased to edits OUTSIDE dependency cones (unrelated definitions, reordering, "
    "non-accepted code, moving a function to another module, respelling a binding, comment outside functions), reverts, "
    "restarts, eval <-> direct-call switches and store-view switches. Oracle: a kept function body may execute only if no "
    "node with the same cone fingerprint (DESIGN.md 4.1, computed from the generator's IR, not from dds) was executed to "
    "completion and stored earlier in this store's history. Non-trivial: at least one evaluation after an edit / revert / "
    "restart had a kept node whose fingerprint was already stored (so a recomputation would have been flagged); "
    "distinct = distinct run digests among those."
)
COMPONENTS = c01.COMPONENTS
ASSUMPTIONS = c01.ASSUMPTIONS + [
    "the cone is at least as fine as dds's signature inputs (DESIGN.md 4.1): equal fingerprints imply equal intended signatures; over-invalidation inside a cone is not detected",
]
PROBES = ["stored_node_seen_again", "revert", "all_cached", "edit_outside_cone_then_eval", "style_switch", "driver_keep_entry"]

PROFILE = {
    "feat": gen.swarm_feat,
    "edits": hist.OUTSIDE_EDITS + hist.OUTSIDE_EDITS + hist.INSIDE_EDITS,
    "n": (4, 10),
    "locations": ["package", "package", "package", "main", "notebook"],
    "p_restart": 0.8,
    "p_revert": 0.15,
    "p_driver_keep": 0.15,
    "p_proc2": 0.2,
    "stores": ("local", "local", "local+cache", "memory"),
}


def gen_case(streams, tier, avoid):
    prof = dict(PROFILE)
    prof["avoid"] = avoid
    if tier == "thorough":
        prof["n"] = (4, 14)
    return hist.gen_history(streams, tier, prof)


def run_case(case):
    root = new_scratch("p")
    try:
        w = World(case, root)
        w.run()
        # probes: an evaluation that follows an edit outside every cone / a switch of entry style for one entry
        last_style = {}
        pending_outside = False
        for op in case["ops"]:
            if op["op"] == "edit":
                pending_outside = op["edit"]["kind"] in hist.OUTSIDE_EDITS
            elif op["op"] == "eval":
                if pending_outside:
                    w.probe("edit_outside_cone_then_eval")
                    pending_outside = False
                st = op.get("style", "eval")
                if op["entry"] in last_style and last_style[op["entry"]] != st:
                    w.probe("style_switch")
                last_style[op["entry"]] = st
        res = c01.finish(w, ORACLES)
        res["nontrivial"] = w.probes.get("stored_node_seen_again", 0) > 0
        return res
    finally:
        rmtree(root)


shrink = c01.shrink
tags = c01.tags
sample = c01.sample
