"""C12 - the in-memory object cache is invisible and bounded (engine K, lock-step differential)."""
import copy
import gc
import os
import sys
import weakref

from ..core.shrink import list_removals
from ..core.util import ensure_repo_on_path, new_scratch, quiet_process, rmtree
from ..storesim.stores import InjectedStoreFault, make_store
from ..storesim.values import Obj, canon, mk_value

PROP = "C12"
LEVEL = "exploration"
DESIGN_REF = "DESIGN.md 6, 7 (C12)"
BUDGETS = {"quick": 25.0, "thorough": 420.0}
CHUNK = 64
RULE = (
    "seeded operation histories (store/has/fetch blob, sync/fetch paths, optional inner-store fault) run in lock "
    "step on a bare store and on the same kind of store wrapped in the object cache, capacities {0,1,2,3,10,unbounded} (0 by direct construction only), "
    "inner stores memory and local; a second family configures the cache through dds.set_store(cache_objects=...) and "
    "counts live fetched objects. A run is non-trivial when at least one fetch or presence check hit a key in a state "
    "where cache and store could differ (fetched before stored, stored after a miss, evicted, None-valued); distinct = "
    "distinct (configuration, abstract op/state sequence)."
)
COMPONENTS = {
    "real": ["dds._lru_store.LRUCacheStore/LRUCache", "dds.store.MemoryStore", "dds.store.LocalFileStore",
             "dds._api.set_store option decoding", "dds codecs (pickle/string/bytes)", "tmpfs file system"],
    "stub": ["FaultyStore wrapper (injects OSError before delegating to the inner store)"],
}
ASSUMPTIONS = [
    "a key always maps to one value within a history (content addressing); overwriting a key with different content is outside the property",
    "under an injected inner-store fault the wrapped store may still answer from its cache; it must then give the model's answer",
    "live-object bound is measured with weak references after gc.collect() on objects unpickled by the local store",
]
PROBES = ["stores_recreated_on_emptied_directories", "fetch_before_store", "store_after_miss", "eviction", "none_blob_fetched_twice", "fault_served_from_cache",
          "api_family", "bound_checked"]

CAPS = [0, 1, 2, 3, 10, sys.maxsize // 2]


def gen_case(streams, tier, avoid):
    cfg = streams.get("config")
    rng = streams.get("history")
    if cfg.random() < 0.2:
        return _gen_api_case(cfg, rng)
    nkeys = cfg.randint(2, 6)
    keys = [f"k{i}" for i in range(nkeys)]
    vals = {}
    for k in keys:
        r = cfg.random()
        if r < 0.2:
            vals[k] = ["none"]
        elif r < 0.6:
            vals[k] = ["obj", cfg.randint(0, 99)]
        elif r < 0.8:
            vals[k] = ["str", cfg.choice(["", "a", "é", "x" * 40])]
        else:
            vals[k] = ["bytes", cfg.choice(["", "00", "ff00"])]
    weights = {
        "store": cfg.choice([1, 2, 4]), "has": cfg.choice([1, 2, 4]), "fetch": cfg.choice([2, 4, 6]),
        "sync": cfg.choice([0, 1]), "paths": cfg.choice([0, 1]),
        "fault": cfg.choice([0, 0, 1]),
    }
    n = cfg.randint(3, 40 if tier == "quick" else 80)
    names = [k for k, w in weights.items() for _ in range(w)]
    ops = []
    paths = ["/p", "/q", "/d/r"]
    for _ in range(n):
        o = rng.choice(names)
        if o == "store":
            ops.append(["store", rng.choice(keys)])
        elif o == "has":
            ops.append(["has", rng.choice(keys)])
        elif o == "fetch":
            ops.append(["fetch", rng.choice(keys)])
        elif o == "sync":
            ops.append(["sync", [[rng.choice(paths), rng.choice(keys)]]])
        elif o == "paths":
            ops.append(["paths", [rng.choice(paths)]])
        else:
            ops.append(["fault"])
    if cfg.random() < 0.3:
        # the stores are thrown away, their directories emptied, and new store objects (and a new cache of the same
        # size) are created on the same locations: nothing of the old content may be answered
        for _ in range(cfg.randint(1, 2)):
            ops.insert(rng.randrange(len(ops) + 1), ["wipe"])
    return {
        "family": "lockstep",
        "inner": cfg.choice(["memory", "local"]),
        "cap": cfg.choice(CAPS),
        "vals": vals,
        "ops": ops,
    }


def _gen_api_case(cfg, rng):
    n = cfg.randint(1, 6)
    return {
        "family": "api",
        "cache_objects": cfg.choice([None, False, True, 0, -1, 1, 2, 3, 10]),
        "nobj": n,
        "loads": [rng.randrange(n) for _ in range(cfg.randint(1, 14))],
    }


# ---------------------------------------------------------------------------------------------


def _answer(fn):
    try:
        return ("ok", fn())
    except InjectedStoreFault:
        return ("fault", None)
    except BaseException as e:  # noqa
        return ("exc", type(e).__name__)


def run_case(case):
    ensure_repo_on_path()
    quiet_process()
    if case["family"] == "api":
        return _run_api(case)
    root = new_scratch("c12")
    try:
        return _run_lockstep(case, root)
    finally:
        rmtree(root)


def _run_lockstep(case, root):
    from collections import OrderedDict

    inner_spec = (lambda tag: {"kind": "memory"} if case["inner"] == "memory" else
                  {"kind": "local", "internal": f"{tag}/int", "data": f"{tag}/data"})
    from dds._lru_store import LRUCacheStore

    cap = case["cap"]
    has_faults = any(o[0] == "fault" for o in case["ops"])

    class _Plain:
        armed = False

    def build():
        """(bare, inner store of the wrapped stack, wrapped). Without fault operations the stores are used directly
        (no FaultyStore in between), as dds.set_store builds them."""
        if has_faults:
            b_ = make_store({"kind": "faulty", "inner": inner_spec("bare")}, root)
            w_ = make_store({"kind": "faulty", "inner": inner_spec("wrap")}, root)
            return b_, w_, LRUCacheStore(w_, num_elem=cap), b_, w_
        b_ = make_store(inner_spec("bare"), root)
        w_ = make_store(inner_spec("wrap"), root)
        return b_, w_, LRUCacheStore(w_, num_elem=cap), _Plain(), _Plain()

    bare, winner, wrapped, bare_f, winner_f = build()
    vals = case["vals"]
    model_blobs = set()
    model_paths = {}
    fetched_once = set()       # keys fetched through the wrapped store at least once
    fetched_absent = set()
    lru = []                   # abstract LRU order of fetched keys (model of what may be cached)
    live = []                  # weakrefs to Obj instances fetched from the wrapped stack
    log = []
    violations = []
    probes = {}
    faults = {}
    akey = [case["inner"], "unb" if cap > 1000 else cap]
    nontrivial = False
    fault_next = False

    def probe(n):
        probes[n] = probes.get(n, 0) + 1

    for step, op in enumerate(case["ops"]):
        kind = op[0]
        if kind == "fault":
            fault_next = True
            log.append([step, "fault-armed"])
            akey.append("F")
            continue
        if kind == "wipe":
            import shutil

            del bare, winner, wrapped, bare_f, winner_f
            gc.collect()
            for tag in ("bare", "wrap"):
                shutil.rmtree(os.path.join(root, tag), ignore_errors=True)
            bare, winner, wrapped, bare_f, winner_f = build()
            model_blobs.clear()
            model_paths.clear()
            fetched_once.clear()
            fetched_absent.clear()
            del lru[:]
            probe("stores_recreated_on_emptied_directories")
            log.append([step, "wipe"])
            akey.append("W")
            continue
        bare_f.armed = winner_f.armed = fault_next
        faulted = fault_next
        fault_next = False
        if kind == "store":
            k = op[1]
            v1 = mk_value(vals[k])
            v2 = mk_value(vals[k])
            a = _answer(lambda: bare.store_blob(k, v1, None))
            b = _answer(lambda: wrapped.store_blob(k, v2, None))
            if a[0] == "ok" and b[0] == "ok":
                if k in fetched_absent and k not in model_blobs:
                    probe("store_after_miss")
                    nontrivial = True
                model_blobs.add(k)
            expect = None
            del v1, v2
        elif kind == "has":
            k = op[1]
            a = _answer(lambda: bare.has_blob(k))
            b = _answer(lambda: wrapped.has_blob(k))
            expect = ("ok", k in model_blobs)
            if k in fetched_once:
                nontrivial = True
        elif kind == "fetch":
            k = op[1]
            a = _answer(lambda: canon(bare.fetch_blob(k)))
            if k not in model_blobs:
                probe("fetch_before_store")
                nontrivial = True

            def fw():
                o = wrapped.fetch_blob(k)
                if isinstance(o, Obj):
                    live.append(weakref.ref(o))
                return canon(o)

            b = _answer(fw)
            expect = ("ok", canon(mk_value(vals[k])) if k in model_blobs else canon(None))
            if b[0] == "ok":
                if k in fetched_once and vals[k] == ["none"] and k in model_blobs:
                    probe("none_blob_fetched_twice")
                    nontrivial = True
                fetched_once.add(k)
                if k not in model_blobs:
                    fetched_absent.add(k)
                if k in lru:
                    lru.remove(k)
                lru.append(k)
                if len(lru) > cap:
                    lru.pop(0)
                    probe("eviction")
                    nontrivial = True
        elif kind == "sync":
            pairs = [(p, k) for p, k in op[1]]
            ok_pairs = [(p, k) for p, k in pairs if k in model_blobs] if case["inner"] == "local" else pairs
            # a local store links to the blob file; linking to a missing blob is not exercised here
            pairs = ok_pairs
            a = _answer(lambda: bare.sync_paths(OrderedDict(pairs)))
            b = _answer(lambda: wrapped.sync_paths(OrderedDict(pairs)))
            if a[0] == "ok" and b[0] == "ok":
                for p, k in pairs:
                    model_paths[p] = k
            expect = None
        elif kind == "paths":
            ps = list(op[1])
            a = _answer(lambda: sorted(bare.fetch_paths(ps).items()))
            b = _answer(lambda: sorted(wrapped.fetch_paths(ps).items()))
            expect = ("ok", sorted((p, model_paths[p]) for p in ps)) if all(p in model_paths for p in ps) else None
        else:
            raise ValueError(op)
        bare_f.armed = winner_f.armed = False
        if faulted:
            faults["inner_store_error"] = faults.get("inner_store_error", 0) + 1
        log.append([step, op, a, b, faulted])
        akey.append([kind, (op[1] in model_blobs) if kind in ("has", "fetch", "store") else None,
                     (op[1] in fetched_once) if kind in ("has", "fetch") else None, faulted])
        # --- oracle C12.same
        if not faulted:
            if a != b:
                violations.append({"oracle": "C12.same",
                                   "detail": f"step {step} {op}: bare={a} wrapped={b}"})
        else:
            if a[0] != "fault":
                # the bare stack always reaches its inner store
                raise RuntimeError(f"harness: fault did not fire on bare stack at {step} {op}: {a}")
            if b[0] == "fault":
                pass
            elif b[0] == "ok" and kind in ("has", "fetch") and expect is not None and b == expect:
                probe("fault_served_from_cache")
                nontrivial = True
            else:
                violations.append({"oracle": "C12.same",
                                   "detail": f"step {step} {op} under inner fault: wrapped={b} expected fault or {expect}"})
        # --- oracle C12.bound (local inner only: fetched objects are fresh instances)
        if case["inner"] == "local" and kind == "fetch":
            gc.collect()
            alive = len({id(o) for o in (r() for r in live) if o is not None})
            live[:] = [r for r in live if r() is not None]
            probe("bound_checked")
            if alive > cap:
                violations.append({"oracle": "C12.bound",
                                   "detail": f"step {step}: {alive} fetched objects alive > capacity {cap}"})
        if violations:
            break
    return {"violations": violations, "probes": probes, "faults": faults, "nontrivial": nontrivial,
            "key": repr(akey), "log": log, "steps": len(case["ops"])}


def _api_child(case, root):
    import dds
    import ddsim.storesim.apifuns as af

    dds.accept_module("ddsim.storesim.apifuns")
    dds.set_store("local", internal_dir=os.path.join(root, "int"), data_dir=os.path.join(root, "data"),
                  cache_objects=case["cache_objects"])
    n = case["nobj"]
    for i in range(n):
        dds.keep(f"/o{i}", af.make_obj, i)


def _run_api(case):
    """The cache configured through the public API: keeps in one process, loads (fetches) in another."""
    import dds
    from ..core.util import fork_call

    root = new_scratch("c12api")
    try:
        fork_call(_api_child, (case, root), timeout=60)
        dds.set_store("local", internal_dir=os.path.join(root, "int"), data_dir=os.path.join(root, "data"),
                      cache_objects=case["cache_objects"])
        co = case["cache_objects"]
        if co is None or co is False or co == 0:
            bound = 0
        elif co is True:
            bound = 10  # documented default: "conservatively small"
        elif co < 0:
            bound = None
        else:
            bound = co
        live = []
        violations = []
        log = []
        for step, i in enumerate(case["loads"]):
            o = dds.load(f"/o{i}")
            ok = isinstance(o, Obj) and o.n == i
            log.append([step, i, canon(o)])
            if not ok:
                violations.append({"oracle": "C12.same", "detail": f"load /o{i} returned {canon(o)}"})
                break
            live.append(weakref.ref(o))
            del o
            gc.collect()
            alive = len({id(x) for x in (r() for r in live) if x is not None})
            log[-1].append(alive)
            if bound is not None and alive > bound:
                violations.append({"oracle": "C12.bound",
                                   "detail": f"cache_objects={co!r}: {alive} fetched objects alive > {bound}"})
                break
        return {"violations": violations, "probes": {"api_family": 1, "bound_checked": len(log)}, "faults": {},
                "nontrivial": len(set(case["loads"])) > 1,
                "key": repr(["api", repr(co), case["nobj"], case["loads"]]), "log": log, "steps": len(log)}
    finally:
        rmtree(root)


# ---------------------------------------------------------------------------------------------


def shrink(case):
    if case["family"] == "api":
        for loads in list_removals(case["loads"], 1):
            c = copy.deepcopy(case)
            c["loads"] = loads
            yield c
        if case["nobj"] > max(case["loads"]) + 1:
            c = copy.deepcopy(case)
            c["nobj"] = max(case["loads"]) + 1
            yield c
        return
    for ops in list_removals(case["ops"], 1):
        c = copy.deepcopy(case)
        c["ops"] = ops
        yield c
    if case["inner"] != "memory":
        c = copy.deepcopy(case)
        c["inner"] = "memory"
        yield c
    for cap in CAPS:
        if cap < case["cap"]:
            c = copy.deepcopy(case)
            c["cap"] = cap
            yield c
    for k, v in sorted(case["vals"].items()):
        if v != ["str", "v"]:
            c = copy.deepcopy(case)
            c["vals"][k] = ["str", "v"]
            yield c
    used = {op[1] for op in case["ops"] if op[0] in ("store", "has", "fetch")} | {
        k for op in case["ops"] if op[0] == "sync" for _, k in op[1]}
    if set(case["vals"]) - used:
        c = copy.deepcopy(case)
        c["vals"] = {k: v for k, v in case["vals"].items() if k in used}
        yield c


def tags(case):
    if case["family"] == "api":
        return [f"api:cache_objects={case['cache_objects']!r}"]
    t = set()
    stored, fetched = set(), set()
    for op in case["ops"]:
        k = op[0]
        if k == "fault":
            t.add("fault")
        elif k == "store":
            t.add("store:" + ("again" if op[1] in stored else ("after-fetch" if op[1] in fetched else "new")))
            stored.add(op[1])
        elif k == "fetch":
            t.add("fetch:" + ("present" if op[1] in stored else "absent"))
            fetched.add(op[1])
        elif k == "has":
            t.add("has:" + ("present" if op[1] in stored else "absent") + (":fetched" if op[1] in fetched else ""))
        else:
            t.add(k)
    if case["inner"] != "memory":
        t.add("inner:" + case["inner"])
    for v in case["vals"].values():
        if v == ["none"]:
            t.add("val:none")
    return sorted(t)


def sample(case, res):
    return {"case": {k: v for k, v in case.items() if k != "_seed"}, "seed": case.get("_seed"),
            "log_tail": res["log"][-6:]}
