"""C16 - every usable local-store configuration works; data dirs are independent views (engine K + processes)."""
import copy
import os

from ..core.shrink import list_removals
from ..core.util import VERIF_ROOT, new_scratch, rmtree
from ..pipe.proc import SimProcess
from ..storesim.values import canon

PROP = "C16"
LEVEL = "exploration"
DESIGN_REF = "DESIGN.md 6, 7 (C16)"
BUDGETS = {"quick": 35.0, "thorough": 600.0}
CHUNK = 8
RULE = (
    "seeded local-store configurations (internal_dir / data_dir each absolute, relative to the cwd, with trailing "
    "separator, nested and not yet existing, or below a symlinked parent; cache_objects in {None, False, True, 0, -1, 1, "
    "3}) x seeded histories of keep / load / chdir / restart (fresh forked process, started in the original or in "
    "another cwd) / keep of a function that itself keeps an intermediate path / switch between two data views sharing one internal directory, all through dds.set_store / dds.keep "
    "/ dds.load. Oracles: keep returns the value, load returns the view's latest kept value (same process, after chdir, "
    "fresh process), a result computed in one view is not recomputed in the other, each view has its own path table. "
    "Non-trivial: a load after chdir or restart, or a keep in the second view of something computed in the first; "
    "distinct = (configuration shape, abstract history)."
)
COMPONENTS = {
    "real": ["dds.set_store option decoding", "dds.store.LocalFileStore", "LRUCacheStore", "dds evaluation", "tmpfs, symlinks"],
    "stub": ["kept function make(kind, n) with execution log"],
}
ASSUMPTIONS = ["a fresh process that starts in another working directory is configured with the same physical directories",
               "directories are usable (creatable, writable)"]
PROBES = ["internal:rel", "internal:symlinked_parent", "internal:nested", "internal:trailing", "data:rel", "data:symlinked_parent",
          "cache:0/False", "load_after_chdir", "load_in_fresh_process", "relative_configuration_from_new_cwd", "second_view_reuses_blob", "views_diverge", "nested_keep",
          "second_view_reuses_nested_keep"]
FORMS = ["abs", "rel", "trailing", "nested", "symlinked_parent"]
APISRC = os.path.join(VERIF_ROOT, "ddsim", "storesim", "apisrc")
PATHS = ["/p", "/q", "/d/r", "/d/e/s"]
KINDS = ["str", "bytes", "obj", "none"]


def gen_case(streams, tier, avoid):
    cfg = streams.get("config")
    rng = streams.get("history")
    case = {"internal": cfg.choice(FORMS), "data": cfg.choice(FORMS), "data2": cfg.choice(FORMS),
            "cache": cfg.choice([None, None, False, True, 0, -1, 1, 3]), "ops": []}
    n = cfg.randint(3, 14)
    for _ in range(n):
        r = rng.random()
        view = rng.choice([0, 0, 1])
        if r < 0.1:
            # a kept function that itself keeps an intermediate result at /stage/inner
            case["ops"].append(["keep2", view, rng.choice(PATHS), rng.choice(KINDS), rng.randint(0, 3)])
        elif r < 0.4:
            case["ops"].append(["keep", view, rng.choice(PATHS), rng.choice(KINDS), rng.randint(0, 3)])
        elif r < 0.7:
            case["ops"].append(["load", view, rng.choice(PATHS + ["/stage/inner"])])
        elif r < 0.85:
            case["ops"].append(["chdir"])
            if "rel" in (case["internal"], case["data"], case["data2"]) and rng.random() < 0.5:
                # the same (relative) configuration strings given again from the new working directory: they name
                # other physical directories there - a new, empty store (or a new view of the same blobs)
                v = rng.choice([0, 0, 1])
                kept = [o for o in case["ops"] if o[0] == "keep" and o[1] == v]
                if kept and rng.random() < 0.7:
                    # ... after something was read back through the old store, and the same thing is kept again in the new one
                    o = rng.choice(kept)
                    case["ops"].insert(len(case["ops"]) - 1, ["load", v, o[2]])
                    case["ops"].append(["relconf", v])
                    case["ops"].append(["keep", v, rng.choice(PATHS), o[3], o[4]])
                    case["ops"].append(["load", v, case["ops"][-1][2]])
                else:
                    case["ops"].append(["relconf", v])
        else:
            case["ops"].append(["restart", rng.choice(["same_cwd", "elsewhere"])])
    return case


def _dirs(root, form, name):
    """Returns (string handed to dds when cwd == base, absolute physical equivalent)."""
    base = os.path.join(root, "base")
    if form == "abs":
        p = os.path.join(root, name)
        return p, p
    if form == "rel":
        return os.path.join("sub", name), os.path.join(base, "sub", name)
    if form == "trailing":
        p = os.path.join(root, name)
        return p + "/", p
    if form == "nested":
        p = os.path.join(root, "n1_" + name, "n2", name)
        return p, p
    if form == "symlinked_parent":
        # the target of the link lives at another depth than the link (a relative link target computed on the
        # lexical path would only work by accident for a sibling directory)
        real = os.path.join(root, "vol", "disk0", "real_" + name)
        os.makedirs(real, exist_ok=True)
        link = os.path.join(root, "link_" + name)
        if not os.path.islink(link):
            os.symlink(real, link)
        return os.path.join(link, name), os.path.join(link, name)
    raise ValueError(form)


def run_case(case):
    root = new_scratch("c16")
    proc = None
    try:
        base = os.path.join(root, "base")
        os.makedirs(base)
        internal = _dirs(root, case["internal"], "int")
        views = [_dirs(root, case["data"], "dataA"), _dirs(root, case["data2"], "dataB")]
        log, violations, probes = [], [], {}
        import collections

        tables_ = collections.defaultdict(dict)      # (view, location of its data dir) -> path table
        computed_ = collections.defaultdict(set)     # location of the internal dir -> results computed there
        loc = ["base"]                               # where relative strings were last resolved

        class _T:
            def __getitem__(self, v):
                return tables_[(v, loc[0] if case["data" if v == 0 else "data2"] == "rel" else "base")]

        class _C:
            def _s(self):
                return computed_[loc[0] if case["internal"] == "rel" else "base"]

            def __contains__(self, x):
                return x in self._s()

            def add(self, x):
                self._s().add(x)

        tables = _T()
        computed = _C()
        cur_view = None
        cwd_is_base = True
        use_abs = False
        nontrivial = False
        ncwd = 0
        akey = [case["internal"], case["data"], case["data2"], repr(case["cache"])]

        def probe(n):
            probes[n] = probes.get(n, 0) + 1

        probe("internal:" + case["internal"])
        probe("data:" + case["data"])
        if case["cache"] in (0, False) and case["cache"] is not None:
            probe("cache:0/False")

        def start(cwd, absolute):
            p = SimProcess()
            p.call({"cmd": "rawinit", "srcdir": APISRC, "accept": ["apiprog"], "modules": ["apiprog"], "cwd": cwd})
            return p

        def set_view(v):
            nonlocal cur_view
            # once the cwd moved away from the base, a relative string would name another directory: a (re)configuration
            # made from there uses the absolute form of the same physical directories
            k = 1 if (use_abs or not cwd_is_base) else 0
            spec = {"kind": "local", "internal": internal[k], "data": views[v][k], "cache": case["cache"]}
            proc.call({"cmd": "set_store", "store": spec})
            cur_view = v
            loc[0] = "base"

        proc = start(base, False)
        after_move = False
        for step, op in enumerate(case["ops"]):
            k = op[0]
            if k == "chdir":
                ncwd += 1
                d = os.path.join(root, f"elsewhere{ncwd}")
                os.makedirs(d, exist_ok=True)
                proc.call({"cmd": "chdir", "dir": d})
                cwd_is_base = False
                after_move = True
                log.append([step, "chdir"])
                akey.append("cd")
                continue
            if k == "relconf":
                v = op[1]
                # (a data directory filled through one internal directory and then used with another one is not a
                # configuration the property speaks about: the view must move whenever the blobs do)
                if cwd_is_base or (case["internal"] == "rel" and case["data" if v == 0 else "data2"] != "rel"):
                    continue
                spec = {"kind": "local", "internal": internal[0], "data": views[v][0], "cache": case["cache"]}
                try:
                    proc.call({"cmd": "set_store", "store": spec})
                except Exception as e:  # noqa
                    violations.append({"oracle": "C16.roundtrip",
                                       "detail": f"step {step}: set_store(local) with the relative configuration from another cwd failed: {str(e)[:300]}"})
                    break
                cur_view = v
                loc[0] = f"cwd{ncwd}"
                probe("relative_configuration_from_new_cwd")
                log.append([step, "relconf", v])
                akey.append(["relconf", v])
                continue
            if k == "restart":
                proc.kill()
                if op[1] == "same_cwd":
                    proc = start(base, False)
                    use_abs = False
                    cwd_is_base = True
                else:
                    ncwd += 1
                    d = os.path.join(root, f"elsewhere{ncwd}")
                    os.makedirs(d, exist_ok=True)
                    proc = start(d, True)
                    use_abs = True
                    cwd_is_base = False
                cur_view = None
                after_move = True
                log.append([step, "restart", op[1]])
                akey.append("rs:" + op[1])
                continue
            view = op[1]
            if cur_view != view:
                try:
                    set_view(view)
                except Exception as e:  # HarnessError carries the child's exception text
                    violations.append({"oracle": "C16.roundtrip",
                                       "detail": f"step {step}: set_store(local) on a usable configuration failed: {str(e)[:300]}"})
                    break
            if k in ("keep", "keep2"):
                _, _, path, kind, n = op
                fname = "make" if k == "keep" else "outer"
                out = proc.call({"cmd": "eval", "entry": "apiprog:" + fname, "style": "keep", "path": path, "args": [kind, n]})
                what = (fname, kind, n)
                exp = _expected(what)
                log.append([step, op, out["res"][:2], out["log"]])
                akey.append([k, view, what in computed, path in tables[view]])
                if out["res"][0] != "ok" or out["res"][1] != exp:
                    violations.append({"oracle": "C16.roundtrip",
                                       "detail": f"step {step} keep {path} in view {view}: {str(out['res'])[:300]} expected {exp[:60]}"})
                    break
                if k == "keep2":
                    probe("nested_keep")
                if what in computed:
                    if what in tables[1 - view].values():
                        probe("second_view_reuses_blob")
                        nontrivial = True
                        if k == "keep2":
                            probe("second_view_reuses_nested_keep")
                    if out["log"]:
                        violations.append({"oracle": "C16.share",
                                           "detail": f"step {step} keep {path} in view {view}: {fname}({kind},{n}) was recomputed ({out['log']}) although "
                                                     f"its result is in the shared internal directory"})
                computed.add(what)
                tables[view][path] = what
                if k == "keep2":
                    # the intermediate path belongs to the same evaluation: committed in this view as well
                    computed.add(("inner", kind, n))
                    tables[view]["/stage/inner"] = ("inner", kind, n)
                if tables[0].get(path) != tables[1].get(path) and path in tables[0] and path in tables[1]:
                    probe("views_diverge")
            elif k == "load":
                _, _, path = op
                out = proc.call({"cmd": "load", "path": path})
                log.append([step, op, out["res"][:2]])
                akey.append(["load", view, path in tables[view], after_move])
                if path in tables[view]:
                    exp = _expected(tables[view][path])
                    if after_move:
                        probe("load_in_fresh_process" if use_abs or cwd_is_base else "load_after_chdir")
                        nontrivial = True
                    if out["res"][0] != "ok" or out["res"][1] != exp:
                        violations.append({"oracle": "C16.roundtrip" if tables[1 - view].get(path) in (None, tables[view][path]) else "C16.views",
                                           "detail": f"step {step} load {path} in view {view} (cwd moved: {not cwd_is_base}): "
                                                     f"{str(out['res'])[:300]} expected {exp[:60]}"})
                        break
                elif out["res"][0] == "ok":
                    violations.append({"oracle": "C16.views",
                                       "detail": f"step {step} load {path} in view {view}: returned {out['res'][1][:60]} but the path was never kept in this view"})
                    break
        return {"violations": violations[:3], "log": log, "probes": probes, "faults": {}, "nontrivial": nontrivial,
                "key": repr(akey), "steps": len(case["ops"])}
    finally:
        if proc is not None:
            proc.kill()
        rmtree(root)


def _expected(what):
    from ..storesim.apifuns import make_val

    fname, kind, n = what
    v = make_val(kind, n)
    if fname == "inner":
        v = ("inner", v)
    elif fname == "outer":
        v = ("outer", ("inner", v))
    return canon(v)


def shrink(case):
    for ops in list_removals(case["ops"], 1):
        c = copy.deepcopy(case)
        c["ops"] = ops
        yield c
    for k in ("internal", "data", "data2"):
        if case[k] != "abs":
            c = copy.deepcopy(case)
            c[k] = "abs"
            yield c
    if case["cache"] is not None:
        c = copy.deepcopy(case)
        c["cache"] = None
        yield c


def tags(case):
    t = {"internal:" + case["internal"], "data:" + case["data"]}
    if any(op[0] in ("keep", "keep2", "load") and op[1] == 1 for op in case["ops"]):
        t.add("data2:" + case["data2"])
        t.add("two-views")
    if case["cache"] is not None:
        t.add("cache:" + repr(case["cache"]))
    for op in case["ops"]:
        t.add("op:" + op[0] + (":" + op[1] if op[0] == "restart" else ""))
    return sorted(t)


def sample(case, res):
    return {"case": {k: v for k, v in case.items() if k != "_seed"}, "seed": case.get("_seed"), "log_tail": res["log"][-6:]}
