"""C03 - signatures depend only on program content, never on the environment (engine P, environment variants)."""
import copy
import json
import os

from ..core.util import HarnessError, VERIF_ROOT, new_scratch, rmtree
from ..pipe import gen, hist, ir, zygote
from ..pipe.proc import SimProcess
from ..pipe.ref import write_tree
from . import c01

PROP = "C03"
LEVEL = "exploration"
DESIGN_REF = "DESIGN.md 7 (C03)"
BUDGETS = {"quick": 35.0, "thorough": 900.0}
CHUNK = 4
MINIMISE_BUDGET = 120
ORACLES = ("C03.",)
HASHSEEDS = ["1", "12345", "777"]
RULE = (
    "for each seeded program (C01 generator incl. loads) one canonical "
    "evaluation (fresh forked process, hash seed 0, local store) and 3-7 variants: interpreters started with "
    "PYTHONHASHSEED 1 / 12345 / 777; another working directory; the source tree copied to another directory and reached "
    "through a symbolic link; memory / local+cache store; extra_debug through argument and option; graph export on; "
    "after a prehistory of up to 5 other evaluations, in-process variable mutations that are reverted, and a failed "
    "evaluation in the same process. Oracle: the path -> signature map handed to Store.sync_paths is identical in every "
    "variant. Plus a committed corpus of programs with pinned signatures (corpus/*.json) that must stay byte-identical. "
    "Non-trivial: at least one variant ran under a different hash seed and one had a prehistory >= 2; distinct = "
    "distinct canonical signature maps."
)
COMPONENTS = {
    "real": c01.COMPONENTS["real"] + ["separate CPython interpreters started with other PYTHONHASHSEED values (zygotes)"],
    "stub": c01.COMPONENTS["stub"],
}
ASSUMPTIONS = c01.ASSUMPTIONS + [
    "one interpreter version (3.12.1) and platform; notebook redefinition is covered by the notebook location of C01 when enabled",
    "corpus signatures were pinned on the tree after the fix: commits recorded in known_findings.json",
]
PROBES = ["variant_hashseed", "variant_cwd", "variant_moved_tree", "variant_symlink_tree", "variant_store_kind",
          "variant_extra_debug", "variant_graph_export", "variant_reload", "variant_prehistory>=2", "variant_after_failed_eval",
          "corpus_program_checked", "base_prehistory", "peer_process_recommits"]
PRELOAD = []


def _feat(cfg, avoid=()):
    f = gen.swarm_feat(cfg, avoid)
    f["loads"] = cfg.random() < 0.45
    f["p_load_never"] = 0.0
    return f


def gen_case(streams, tier, avoid):
    cfg = streams.get("config")
    prng = streams.get("program")
    feat = _feat(cfg, avoid)
    prog = gen.gen_program(prng, feat)
    ents = gen.entries(prog)
    entry = cfg.choice(ents)
    v = streams.get("history")
    nv = v.randint(3, 7)
    variants = []
    kinds = ["hashseed", "hashseed", "cwd", "moved", "symlink", "store", "debug", "graph", "prehistory", "prehistory"]
    if feat.get("ctext"):
        kinds += ["reload", "reload"]
    for _ in range(nv):
        k = v.choice(kinds)
        var = {"kind": k}
        if k == "hashseed":
            var["hashseed"] = v.choice(HASHSEEDS)
        if k == "store":
            # the no-op store cannot serve dds.load (documented): only for programs without loads
            var["store"] = v.choice([{"kind": "memory"}, {"kind": "local", "cache": 2}] +
                                    ([] if feat.get("loads") else [{"kind": "noop"}]))
        if k == "debug":
            var["how"] = v.choice(["arg", "option_false", "option_true"])
        if k == "prehistory":
            pre = []
            for _ in range(v.randint(1, 5)):
                r = v.random()
                if r < 0.5:
                    pre.append({"op": "eval", "entry": v.choice(ents)})
                elif r < 0.8 and prog["vars"]:
                    name = v.choice(sorted(prog["vars"]))
                    kind = prog["vars"][name]["kind"]
                    nested = [n_ for n_ in sorted(prog["vars"]) if gen.nested_partner(prog["vars"][n_]["value"]) is not None]
                    if nested and v.random() < 0.6:
                        # an update inside a nested container of the variable, in place, and back
                        name = v.choice(nested)
                        pre.append({"op": "mutate_and_back", "var": name, "value": gen.nested_partner(prog["vars"][name]["value"]),
                                    "entry": v.choice(ents), "inplace": True})
                        continue
                    pre.append({"op": "mutate_and_back", "var": name, "value": v.choice(gen.VAR_VALUES[kind]),
                                "entry": v.choice(ents), "inplace": kind in ("list", "dict") and v.random() < 0.6})
                else:
                    reach = sorted(gen.reachable(prog, entry))
                    pre.append({"op": "failed_eval", "entry": entry, "at": v.choice(reach), "cls": "ValueError"})
            var["pre"] = pre
            var["hashseed"] = v.choice([None, None] + HASHSEEDS)
        variants.append(var)
    peer = None
    if feat.get("loads") and prog["vars"] and v.random() < 0.4:
        # another live process re-commits some paths (from another variable value) between the earlier evaluations
        # and the compared one - in every variant, the canonical one included: what the store holds is the same
        # everywhere, only the process (and its caches) that looks at it differs
        from ..pipe.cone import Cones

        prods = Cones(prog).producers()
        mine = gen.reachable(prog, entry)
        loaded = {it["path"] for fn in mine for it in prog["funcs"][fn]["body"] if it["t"] == "load"}
        ext = {prods[p][1] for p in loaded if p in prods and prods[p][1] not in mine}
        # preferably an entry point that produces a path the compared evaluation only loads, and a variable it reads
        pe = [e for e in ents if e != entry and ext & gen.reachable(prog, e)] or ents
        pentry = v.choice(pe)
        read = sorted({it["name"] for fn in gen.reachable(prog, pentry) for it in prog["funcs"][fn]["body"] if it["t"] == "var"})
        name = v.choice(read or sorted(prog["vars"]))
        kind = prog["vars"][name]["kind"]
        peer = {"entry": pentry, "var": name,
                "value": v.choice([x for x in gen.VAR_VALUES[kind] if x != prog["vars"][name]["value"]] or gen.VAR_VALUES[kind])}
        fixed = []
        for x in variants:
            if x["kind"] == "hashseed" or (x["kind"] == "store" and x["store"]["kind"] != "local"):
                x = {"kind": "store", "store": {"kind": "local", "cache": v.choice([1, 2, 3, 10, True])}}
            x["hashseed"] = None
            fixed.append(x)
        variants = fixed
        if not any(x["kind"] == "store" for x in variants):
            variants.append({"kind": "store", "store": {"kind": "local", "cache": v.choice([1, 2, 3, 10, True])}})
    if peer is None and feat.get("loads") and not any(x.get("store", {}).get("kind") == "memory" for x in variants):
        # what a load resolves to comes from the store: always compare with a store of another kind
        variants.append({"kind": "store", "store": {"kind": "memory"}})
    # evaluations made before the compared one in EVERY variant (the canonical one included): paths produced by
    # other entry points are then resolved from the store by the loads of the compared evaluation
    base = [e for e in ents if e != entry and v.random() < (0.8 if feat.get("loads") else 0.6)][:4]
    return {"prog": prog, "feat": feat, "entry": entry, "variants": variants, "base_pre": base, "peer": peer}


def _cmds(prog, entry, srcdir, store, root, var):
    mods = [ir.modname(prog, m) for m in prog["mods"]]
    options = []
    evopts = {}
    if var.get("kind") == "debug":
        if var["how"] == "arg":
            evopts["dds_extra_debug"] = True
        else:
            options.append(["extra_debug", var["how"] == "option_true"])
    if var.get("kind") == "graph":
        evopts["dds_export_graph"] = os.path.join(root, f"g_{id(var) % 100000}.dot")
    cmds = [{"cmd": "init", "srcdir": srcdir, "accept": ir.accepted_names(prog), "store": store, "modules": mods,
             "options": options, "cwd": var.get("cwd")}]
    f = prog["funcs"][entry]
    ename = ir.modname(prog, f["mod"]) + ":" + entry
    if var.get("kind") == "reload":
        # before anything that the compared evaluation may load from the store is produced: evaluate under the other
        # text, rewrite the files, reload
        cmds.append({"cmd": "eval", "entry": ename, "style": "eval", "options": {}})
        files = {rel: text for rel, text in ir.render(prog).items() if rel.startswith(prog["pkg"][0] + "/") and rel.endswith(".py")
                 and not rel.endswith("__init__.py")}
        cmds.append({"cmd": "reload", "srcdir": srcdir, "files": files, "modules": list(reversed(mods))})
    for be in var.get("_base_pre", []):
        bf = prog["funcs"][be]
        cmds.append({"cmd": "eval", "entry": ir.modname(prog, bf["mod"]) + ":" + be, "style": "eval", "options": {}})
    for pre in var.get("pre", []):
        pf = prog["funcs"][pre["entry"]]
        pname = ir.modname(prog, pf["mod"]) + ":" + pre["entry"]
        if pre["op"] == "eval":
            cmds.append({"cmd": "eval", "entry": pname, "style": "eval", "options": {}})
        elif pre["op"] == "mutate_and_back":
            vv = prog["vars"][pre["var"]]
            from ..pipe.world import _pyvalue

            modn = ir.modname(prog, vv["mod"])
            ip = bool(pre.get("inplace"))
            cmds.append({"cmd": "mutate", "module": modn, "var": pre["var"], "value": copy.deepcopy(_pyvalue(vv["kind"], pre["value"])),
                         "inplace": ip})
            cmds.append({"cmd": "eval", "entry": pname, "style": "eval", "options": {}})
            cmds.append({"cmd": "mutate", "module": modn, "var": pre["var"], "value": copy.deepcopy(_pyvalue(vv["kind"], vv["value"])),
                         "inplace": ip})
            # the evaluation under the mutated value committed its paths to the store: evaluate once more under the
            # restored value, so that a dds.load of one of those paths by the compared evaluation is served the same
            # content as in the canonical run (what the store holds is an input of a load, not "environment")
            cmds.append({"cmd": "eval", "entry": pname, "style": "eval", "options": {}})
        elif pre["op"] == "failed_eval":
            cmds.append({"cmd": "eval", "entry": pname, "style": "eval", "options": {},
                         "fail": {"at": pre["at"], "cls": pre["cls"]}})
    cmds.append({"cmd": "eval", "entry": ename, "style": "eval", "options": evopts, "final": True})
    return cmds


def _sigs_of(reply):
    out = None
    for c in reply["calls"]:
        if c[0] == "sync_paths":
            out = sorted((p, k) for p, k in c[1])
    return out


def _run_variant(prog, entry, root, idx, var):
    tree = os.path.join(root, "src", "canon")
    srcdir = tree
    if var.get("kind") == "moved":
        srcdir = os.path.join(root, "elsewhere", "deep", f"copy{idx}")
        write_tree(srcdir, ir.render(prog))
    elif var.get("kind") == "symlink":
        srcdir = os.path.join(root, f"link{idx}")
        os.symlink(tree, srcdir)
    elif var.get("kind") == "reload":
        # the process starts on a tree whose functions carry another comment text (same lines, same code), evaluates,
        # then the files are rewritten with the compared text and the modules are reloaded
        srcdir = os.path.join(root, f"reload{idx}")
        other = ir.clone(prog)
        for g in other["funcs"].values():
            if g.get("ctext") is not None:
                g["ctext"] = int(g["ctext"]) + 2
        write_tree(srcdir, ir.render(other))
    v = dict(var)
    v["_base_pre"] = [e for e in (var.get("_base") or []) if e in prog["funcs"]]
    if var.get("kind") == "cwd":
        d = os.path.join(root, f"cwd{idx}")
        os.makedirs(d, exist_ok=True)
        v["cwd"] = d
    st = var.get("store") or {"kind": "local"}
    st = dict(st)
    if st["kind"] == "local":
        st["internal"] = os.path.join(root, f"store{idx}", "int")
        st["data"] = os.path.join(root, f"store{idx}", "data")
    cmds = _cmds(prog, entry, srcdir, st, root, v)
    hs = var.get("hashseed")
    peer = var.get("_peer")
    if peer:
        from ..pipe.world import _pyvalue

        p = SimProcess()
        try:
            replies = [["ok", p.call(c)] for c in cmds[:-1]]
            q = SimProcess()      # the peer: same files, same store directories, its own caches
            try:
                q.call(cmds[0])
                vv = prog["vars"][peer["var"]]
                pf = prog["funcs"][peer["entry"]]
                q.call({"cmd": "mutate", "module": ir.modname(prog, vv["mod"]), "var": peer["var"],
                        "value": copy.deepcopy(_pyvalue(vv["kind"], peer["value"])), "inplace": False})
                q.call({"cmd": "eval", "entry": ir.modname(prog, pf["mod"]) + ":" + peer["entry"], "style": "eval", "options": {}})
            finally:
                q.kill()
            replies.append(["ok", p.call(cmds[-1])])
        finally:
            p.kill()
        env = {"hashseed": os.environ.get("PYTHONHASHSEED"), "hash_a": hash("a")}
    elif hs:
        rep = zygote.request(hs, cmds)
        replies = rep["replies"]
        env = {"hashseed": rep["hashseed"], "hash_a": rep["hash_a"]}
    else:
        p = SimProcess()
        try:
            replies = [["ok", p.call(c)] for c in cmds]
        finally:
            p.kill()
        env = {"hashseed": os.environ.get("PYTHONHASHSEED"), "hash_a": hash("a")}
    last = replies[-1][1]
    return last, env


CORPUS_DIR = os.path.join(VERIF_ROOT, "corpus")


def fixed_cases():
    out = []
    if os.path.isdir(CORPUS_DIR):
        for n in sorted(os.listdir(CORPUS_DIR)):
            if n.endswith(".json"):
                with open(os.path.join(CORPUS_DIR, n)) as f:
                    doc = json.load(f)
                out.append({"kind": "corpus", "name": n, "doc": doc})
    return out


def _run_corpus(case, root):
    doc = case["doc"]
    src = os.path.join(root, "src")
    write_tree(src, doc["files"])
    p = SimProcess()
    try:
        p.call({"cmd": "init", "srcdir": src, "accept": doc["accept"], "modules": doc["modules"],
                "store": {"kind": "local", "internal": os.path.join(root, "int"), "data": os.path.join(root, "data")}})
        out = p.call({"cmd": "eval", "entry": doc["entry"], "style": "eval", "options": {}})
    finally:
        p.kill()
    sigs = _sigs_of(out)
    exp = sorted(map(tuple, doc["expected"]))
    viol = []
    if out["res"][0] != "ok" or sorted(map(tuple, sigs or [])) != exp:
        got = dict(sigs or [])
        diff = sorted(p for p, k in exp if got.get(p) != k)
        viol.append({"oracle": "C03.pinned", "detail": f"corpus program {case['name']} ({doc['entry']}): pinned signatures changed for "
                                                       f"{diff[:5]} (result {str(out['res'])[:120]})", "tags": ["corpus"]})
    return {"violations": viol, "log": [["corpus", case["name"], sigs]], "probes": {"corpus_program_checked": 1},
            "nontrivial": False, "key": "corpus:" + case["name"]}


def run_case(case):
    root = new_scratch("c03")
    try:
        if case.get("kind") == "corpus":
            return _run_corpus(case, root)
        prog, entry = case["prog"], case["entry"]
        write_tree(os.path.join(root, "src", "canon"), ir.render(prog))
        log, violations, probes = [], [], {}

        def probe(n):
            probes[n] = probes.get(n, 0) + 1

        base = case.get("base_pre", [])
        if base:
            probe("base_prehistory")
        peer = case.get("peer")
        if peer and (peer["entry"] not in prog["funcs"] or peer["var"] not in prog["vars"]):
            peer = None
        if peer:
            probe("peer_process_recommits")
        canon, env0 = _run_variant(prog, entry, root, 0, {"kind": "canonical", "_base": base, "_peer": peer})
        csigs = _sigs_of(canon)
        log.append(["canonical", canon["res"][:2], csigs])
        if canon["res"][0] != "ok":
            # not this property's business (C01/C09 report evaluation failures): nothing to compare
            return {"violations": [], "log": log, "probes": probes, "nontrivial": False}
        saw_hs = saw_pre = False
        for idx, var in enumerate(case["variants"], start=1):
            out, env = _run_variant(prog, entry, root, idx, dict(var, _base=base, _peer=peer))
            sigs = _sigs_of(out)
            k = var["kind"]
            probe({"hashseed": "variant_hashseed", "cwd": "variant_cwd", "moved": "variant_moved_tree",
                   "symlink": "variant_symlink_tree", "store": "variant_store_kind", "debug": "variant_extra_debug",
                   "graph": "variant_graph_export", "reload": "variant_reload", "prehistory": "variant_prehistory>=2"
                   if len(var.get("pre", [])) >= 2 else "variant_prehistory<2"}[k])
            if var.get("hashseed"):
                if env["hash_a"] == env0["hash_a"]:
                    raise HarnessError("zygote does not run under a different hash seed")
                saw_hs = True
            if len(var.get("pre", [])) >= 2:
                saw_pre = True
            if any(p["op"] == "failed_eval" for p in var.get("pre", [])):
                probe("variant_after_failed_eval")
            desc = {kk: vv for kk, vv in var.items() if kk != "pre"}
            log.append(["variant", desc, [p["op"] for p in var.get("pre", [])], out["res"][:2], sigs])
            if var.get("store", {}).get("kind") == "noop":
                pass
            if out["res"] != canon["res"]:
                violations.append({"oracle": "C03.same", "detail": f"variant {desc}: result {str(out['res'])[:200]} differs from the canonical {str(canon['res'])[:200]}",
                                   "tags": ["variant:" + k]})
            elif sigs != csigs:
                diff = sorted(set(map(tuple, sigs or [])) ^ set(map(tuple, csigs or [])))
                violations.append({"oracle": "C03.same", "detail": f"variant {desc} (prehistory {var.get('pre')}): signatures differ from the canonical "
                                                                    f"evaluation: {diff[:4]}", "tags": ["variant:" + k]})
        return {"violations": violations[:3], "log": log, "probes": probes, "nontrivial": saw_hs and saw_pre,
                "key": repr(csigs), "steps": len(case["variants"]) + 1}
    finally:
        rmtree(root)


def preload_worker():
    for hs in HASHSEEDS:
        zygote.start(hs)


def shrink(case):
    from ..core.shrink import list_removals

    if case.get("kind") == "corpus":
        return
    for vs in list_removals(case["variants"], 1):
        c = copy.deepcopy(case)
        c["variants"] = vs
        yield c
    for i, var in enumerate(case["variants"]):
        if var.get("pre"):
            for pre in list_removals(var["pre"]):
                c = copy.deepcopy(case)
                c["variants"][i]["pre"] = pre
                yield c
    fake = {"prog": case["prog"], "ops": [{"op": "eval", "entry": case["entry"]}], "store": {"kind": "local"}}
    for cand in hist.shrink_history(fake):
        if len(cand["ops"]) != 1:
            continue
        c = copy.deepcopy(case)
        c["prog"] = cand["prog"]
        ok = True
        for var in c["variants"]:
            for pre in var.get("pre", []):
                if pre["entry"] not in c["prog"]["funcs"] or (pre.get("var") and pre["var"] not in c["prog"]["vars"]) or \
                        (pre.get("at") and pre["at"] not in c["prog"]["funcs"]):
                    ok = False
        if ok:
            yield c


def tags(case):
    if case.get("kind") == "corpus":
        return ["corpus"]
    fake = {"prog": case["prog"], "ops": [], "store": {"kind": "local"}}
    t = set(hist.feature_tags(fake))
    t.discard("store:local")
    return sorted(t)


def sample(case, res):
    return {"case": {k: v for k, v in case.items() if k != "_seed"}, "seed": case.get("_seed"), "log": res["log"][:4]}
