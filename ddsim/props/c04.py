"""C04 - a committed path serves the value of the latest evaluation that kept it (engine P + model path table)."""
from ..core.util import new_scratch, rmtree
from ..pipe import gen, hist
from ..pipe.world import World
from . import c01

PROP = "C04"
LEVEL = "exploration"
DESIGN_REF = "DESIGN.md 4, 7 (C04)"
BUDGETS = {"quick": 35.0, "thorough": 900.0}
CHUNK = 4
MINIMISE_BUDGET = 200
ORACLES = ("C04.",)
RULE = (
    "C01's generator and histories on memory / local / local+cache stores; after evaluations, dds.load of 1-4 paths seen "
    "so far in the history (kept by the last evaluation or by an earlier one, or never committed) from the same process "
    "and from a freshly forked process, plus for the local store a direct read of <data_dir>/<path>. Oracle: a model "
    "path table maintained from the dds-free reference run in program order. Non-trivial: at least one load of a path "
    "that was re-kept with changed code, or of a path not kept by the most recent evaluation; distinct = run digests."
)
COMPONENTS = c01.COMPONENTS
ASSUMPTIONS = c01.ASSUMPTIONS + [
    "DBFS path commits are exercised by C19's machine over the fake dbutils, not here",
    "the file under the data directory is located by joining the path's segments below data_dir",
]
PROBES = ["two_producers_of_one_path", "load_checked", "fresh_process_load", "file_checked", "rekeep_switched_path", "untouched_path_checked"]

PROFILE = {
    "feat": gen.swarm_feat,
    "edits": ["var", "ver", "lit", "rtx", "default", "path", "comment", "move"],
    "n": (4, 12),
    "locations": ["package", "package", "package", "main", "notebook"],
    "p_restart": 0.7,
    "p_load_after": 0.8,
    "p_mutate": 0.04,
    "p_driver_keep": 0.15,
    "p_proc2": 0.4,
    "stores": ("local", "local", "local+cache", "memory"),
}


def gen_case(streams, tier, avoid):
    prof = dict(PROFILE)
    prof["avoid"] = avoid
    case = hist.gen_history(streams, tier, prof)
    f = streams.get("faults")
    if f.random() < 0.2:
        _add_second_producer(case, f)
    return case


def _add_second_producer(case, rng):
    """Two pipelines that keep the same path: a kept top-level function F whose body keeps /p, another entry point that
    keeps /p from another function, then F again (served from the store): /p must follow the last evaluation."""
    from ..pipe import gen, ir

    prog = case["prog"]
    for op in case["ops"]:
        if op["op"] == "edit":
            prog = gen.apply_edit(prog, op["edit"])
    cands = [(fn, it) for fn in gen.entries(prog) if prog["funcs"][fn]["kind"] == "data"
             for it in prog["funcs"][fn]["body"] if it["t"] == "keep" and it.get("pathform", "lit") == "lit"]
    if not cands or "f97" in prog["funcs"]:
        return
    fn, it = rng.choice(cands)
    mod = prog["mods"][-1]
    base = case["prog"]
    for name, kind, params in (("f97", "target", [["a0", ir.NODEFAULT]]), ("f98", "plain", [])):
        base["funcs"][name] = {"mod": mod, "kind": kind, "params": params, "ver": 1, "ret": "tuple", "pad": 0, "body": [],
                               "comment": 0, "end": False}
        base["order"].append(name)
    base["funcs"]["f98"]["body"].append({"t": "keep", "path": it["path"], "f": "f97", "args": [{"k": "lit", "v": 1}]})
    path = it["path"]
    case["ops"] += [{"op": "eval", "entry": fn, "style": "call"},
                    {"op": "eval", "entry": "f98", "style": "eval"},
                    {"op": "load", "path": path, "fresh": False, "file": True},
                    {"op": "eval", "entry": fn, "style": "call"},
                    {"op": "load", "path": path, "fresh": False, "file": True},
                    {"op": "load", "path": path, "fresh": True, "file": False}]


def run_case(case):
    root = new_scratch("p")
    try:
        w = World(case, root)
        w.run()
        res = c01.finish(w, ORACLES)
        if "f98" in case["prog"]["funcs"]:
            res["probes"]["two_producers_of_one_path"] = 1
        loads = [o for o in w.obs if o["op"] == "load" and o["expected"] is not None]
        if loads:
            res["probes"]["load_checked"] = len(loads)
        fresh = sum(1 for o in loads if o["fresh"])
        if fresh:
            res["probes"]["fresh_process_load"] = fresh
        # non-trivial: a load whose expected value differs from an earlier expected value of the same path,
        # or a load of a path the most recent evaluation did not keep
        seen = {}
        nt = False
        last_kept = set()
        for o in w.obs:
            if o["op"] == "eval" and o["res"][0] == "ok":
                last_kept = {p for (p, _) in o["kept"]}
            if o["op"] == "load" and o["expected"] is not None:
                if o["path"] in seen and seen[o["path"]] != o["expected"]:
                    res["probes"]["rekeep_switched_path"] = res["probes"].get("rekeep_switched_path", 0) + 1
                    nt = True
                if o["path"] not in last_kept:
                    res["probes"]["untouched_path_checked"] = res["probes"].get("untouched_path_checked", 0) + 1
                    nt = True
                seen[o["path"]] = o["expected"]
        res["nontrivial"] = nt
        return res
    finally:
        rmtree(root)


shrink = c01.shrink
tags = c01.tags
sample = c01.sample
