"""C15 - restricting the stages makes an evaluation a side-effect-free dry run (engine P, twin histories)."""
from ..core.util import new_scratch, rmtree
from ..pipe import gen, hist, ir, twin
from ..pipe.world import World
from . import c01

PROP = "C15"
LEVEL = "exploration"
DESIGN_REF = "DESIGN.md 4.8, 7 (C15)"
BUDGETS = {"quick": 35.0, "thorough": 900.0}
CHUNK = 4
MINIMISE_BUDGET = 150
ORACLES = ("C15.",)
RULE = (
    "C01's programs and histories with 1-2 evaluations restricted by dds_stages to a prefix of the stage order (given as "
    "names in any letter case, enum members or enum values) at seeded positions - on fresh and populated stores, before "
    "and after edits and restarts. Oracles: without the eval stage no user function runs, no blob is written, no path "
    "is committed; with eval but without path_commit values are correct, blobs may appear, committed paths are "
    "unchanged; the rest of the history is equivalent to the twin history without the restricted run. Non-trivial: the "
    "restricted run happened on a store state where a full run would have executed or committed something; distinct = run digests."
)
COMPONENTS = c01.COMPONENTS
ASSUMPTIONS = c01.ASSUMPTIONS
PROBES = ["dry_run_peer_full_run_then_full_run", "dry_run_then_mutation_then_full_run", "analysis_only", "eval_without_path_commit", "restricted_on_populated_store", "twin_ops_compared",
          "enum_spelling", "mixed_case_spelling"]
ORDER = ["analysis", "store_inspect", "eval", "store_commit", "path_commit"]

PROFILE = {
    "feat": gen.swarm_feat,
    "edits": ["var", "ver", "lit", "comment", "unrelated"],
    "n": (3, 8),
    "p_restart": 0.5,
    "p_proc2": 0.3,
    "stores": ("local", "local", "local+cache", "memory"),
}


def _spell(rng, name):
    r = rng.random()
    if r < 0.25:
        return "enum:" + name.upper()
    if r < 0.5:
        return name.upper()
    if r < 0.75:
        return "".join(c.upper() if rng.random() < 0.5 else c for c in name)
    return name


def gen_case(streams, tier, avoid):
    prof = dict(PROFILE)
    prof["avoid"] = avoid
    case = hist.gen_history(streams, tier, prof)
    f = streams.get("faults")
    evals = [i for i, op in enumerate(case["ops"]) if op["op"] == "eval"]
    for _ in range(f.choice([1, 1, 2])):
        pos = f.choice(evals)
        op = case["ops"][pos]
        k = f.choice([1, 1, 2, 3, 4])
        stages = [_spell(f, s) for s in ORDER[:k]]
        new = {"op": "eval", "entry": op["entry"], "style": "eval", "snap": True, "restricted": True,
               "opts": {"dds_stages": stages}}
        at = pos + f.choice([0, 1])
        if op.get("proc"):
            new["proc"] = op["proc"]
        case["ops"].insert(at, new)
        if any(o.get("proc") for o in case["ops"]) and case["store"].get("kind") != "memory" and f.random() < 0.5:
            # dry run in the long-running process, the full run in the main process, then the full run in the first one
            new["proc"] = 1
            case["ops"].insert(at + 1, {"op": "eval", "entry": op["entry"], "style": "eval"})
            case["ops"].insert(at + 2, {"op": "eval", "entry": op["entry"], "style": "eval", "proc": 1})
        prog = case["prog"]
        free = [v for v in sorted(prog["vars"])
                if not any(ir.default_var(d) == v for g in prog["funcs"].values() for (_, d) in g["params"])]
        if free and f.random() < 0.4:
            # dry run, then an input of the analysis changes inside the same process, then the full run of the same
            # function (no other evaluation in between)
            v = f.choice(free)
            kind = prog["vars"][v]["kind"]
            case["ops"].insert(at + 1, {"op": "mutate", "var": v, "value": f.choice(gen.VAR_VALUES[kind]), "inplace": f.random() < 0.3})
            case["ops"].insert(at + 2, {"op": "eval", "entry": op["entry"], "style": "eval"})
        evals = [i for i, op in enumerate(case["ops"]) if op["op"] == "eval"]
    return case


def _names(stages):
    return [s.replace("enum:", "").lower() for s in stages]


def run_case(case):
    case = twin.with_ids(case)
    root1, root2 = new_scratch("p"), new_scratch("p2")
    try:
        w = World(case, root1)
        w.run()
        probes = dict(w.probes)

        def probe(n):
            probes[n] = probes.get(n, 0) + 1

        for a, b in zip(case["ops"], case["ops"][1:]):
            if a.get("restricted") and b["op"] == "mutate":
                probe("dry_run_then_mutation_then_full_run")
            if a.get("restricted") and a.get("proc") == 1 and b["op"] == "eval" and not b.get("proc"):
                probe("dry_run_peer_full_run_then_full_run")
        restricted = [o for o in w.obs if o["op"] == "eval" and o["opts"].get("dds_stages")]
        nontrivial = False
        for o in restricted:
            st = o["opts"]["dds_stages"]
            names = _names(st)
            if any(s.startswith("enum:") for s in st):
                probe("enum_spelling")
            if any(s != s.lower() and s != s.upper() and not s.startswith("enum:") for s in st):
                probe("mixed_case_spelling")
            if o["res"][0] != "ok":
                w.violate("C15.accept", f"op {o['i']} eval {o['entry']} with dds_stages={st}: raised {str(o['res'])[:300]}")
                continue
            if o["snap_before"]["blobs"] or o["snap_before"]["paths"]:
                probe("restricted_on_populated_store")
            would_do = bool(o["reflog"])
            if "eval" not in names:
                probe("analysis_only")
                nontrivial = nontrivial or would_do
                if o["log"]:
                    w.violate("C15.noexec", f"op {o['i']} eval {o['entry']} with dds_stages={st}: user functions ran: {o['log']}")
                if o["nstore_calls"] or o["snap_after"]["blobs"] != o["snap_before"]["blobs"]:
                    w.violate("C15.noblob", f"op {o['i']} eval {o['entry']} with dds_stages={st}: blobs were written")
                if o["nsync_calls"] or o["snap_after"]["paths"] != o["snap_before"]["paths"]:
                    w.violate("C15.nopath", f"op {o['i']} eval {o['entry']} with dds_stages={st}: paths were committed")
            elif "path_commit" not in names:
                probe("eval_without_path_commit")
                nontrivial = True
                if o["res"] != o["ref"]:
                    w.violate("C15.value", f"op {o['i']} eval {o['entry']} with dds_stages={st}: returned {str(o['res'])[:200]} "
                                           f"expected {str(o['ref'])[:200]}")
                if o["nsync_calls"] or o["snap_after"]["paths"] != o["snap_before"]["paths"]:
                    w.violate("C15.nopath", f"op {o['i']} eval {o['entry']} with dds_stages={st}: paths were committed")
            else:
                if o["res"] != o["ref"]:
                    w.violate("C15.value", f"op {o['i']} eval {o['entry']} with all stages: returned {str(o['res'])[:200]}")
        if restricted:
            tcase = twin.twin_of(case, lambda op: bool(op.get("restricted")))
            w2 = World(tcase, root2)
            w2.run()
            n = twin.compare_after(w, w2, min(o["i"] for o in restricted), "C15.twin", w.violate)
            probes["twin_ops_compared"] = n
        w.probes = probes
        res = c01.finish(w, ORACLES)
        res["nontrivial"] = nontrivial
        return res
    finally:
        rmtree(root1)
        rmtree(root2)


shrink = c01.shrink
tags = c01.tags
sample = c01.sample
