"""C17 - results are read back with the codec that wrote them, text and bytes verbatim (engine K)."""
import copy
import json
import os
import pickle

from ..core.shrink import list_removals
from ..core.util import ensure_repo_on_path, fork_call, new_scratch, quiet_process, rmtree
from ..storesim.values import canon, mk_value

PROP = "C17"
LEVEL = "exploration"
DESIGN_REF = "DESIGN.md 6, 7 (C17)"
BUDGETS = {"quick": 30.0, "thorough": 600.0}
CHUNK = 16
RULE = (
    "seeded histories on the local store (and the cache-wrapped local store): store_blob / fetch_blob of values of every "
    "result type ('' / non-ASCII / 1 MiB strings, b'' / bytes / bytearray, None, picklable objects, nested builtin "
    "containers, pandas frames, a type with user codecs) interleaved with registrations of further codecs for the same "
    "types (file codecs and location codecs, user references and re-registration of builtin ones, in seeded order) and "
    "with restarts: a fresh forked process that registers the same codecs in another seeded order before reading. "
    "Oracles: fetched value equal (and of the same type, bytearray -> bytes excepted); the codec that deserialised is "
    "the one named in the blob's metadata, which is the one that serialised it; str / bytes written by the builtin "
    "codecs are byte-identical in the blob file; a blob whose metadata names the legacy reference default.pandas_local "
    "is read by the pandas codec. Non-trivial: a read after a registration or restart that could have changed the codec "
    "chosen for the value's type; distinct = abstract histories."
)
COMPONENTS = {
    "real": ["dds.codec.CodecRegistry", "builtin codecs (string, bytes, pickle, pandas/parquet)", "dds.store.LocalFileStore",
             "LRUCacheStore", "pyarrow"],
    "stub": ["instrumented user codecs (ddsim.storesim.usercodecs)"],
}
ASSUMPTIONS = ["a fresh process registers the same set of codecs before reading (possibly in another order)",
               "verbatim storage is claimed for the builtin text / bytes codecs, not for a user codec registered for str or bytes"]
PROBES = ["blobs_wiped", "read_after_registration", "read_after_restart", "user_codec_wrote", "verbatim_checked", "pandas_frame",
          "big_string", "legacy_pandas_ref", "lru_wrapped"]

VALS = [["str", ""], ["str", "ascii"], ["str", "é∑漢"], ["str", "line1\r\nline2\rline3\n"], ["str", "\ufeffbom\x00nul\x1a"], ["bigstr", "aé", 1 << 20], ["bytes", ""], ["bytes", "00ff10"],
        ["bytearray", "0102"], ["none"], ["obj", 1], ["obj", 2, "é"], ["list", [["int", 1], ["str", "a"]]],
        ["dict", [["a", ["int", 1]]]], ["tuple", [["int", 1], ["none"]]], ["frame", 3], ["frame", 0], ["frame", 4, "labels"], ["frame", 4, "named"], ["frame", 5, "filtered"],
        ["frame", 4, "multi"], ["frame", 3, "offset"], ["int", 5],
        ["obj2inner", 4], ["obj2pkg", 4], ["obj2inner", 5]]
REGS = ["tagstr", "objjson", "objpickle2", "bytes2", "builtin_string", "builtin_pickle", "pkgobj2", "pkgobj2", "tagstr2", "bytes3"]


def gen_case(streams, tier, avoid):
    cfg = streams.get("config")
    rng = streams.get("history")
    if cfg.random() < 0.08:
        return {"family": "legacy_pandas", "rows": cfg.randint(0, 4)}
    nk = cfg.randint(2, 6)
    vals = {f"k{i}": cfg.choice(VALS) for i in range(nk)}
    keys = sorted(vals)
    ops = []
    n = cfg.randint(3, 16)
    regs = [r for r in REGS if cfg.random() < 0.5]
    for _ in range(n):
        r = rng.random()
        if r < 0.35:
            ops.append(["store", rng.choice(keys)])
        elif r < 0.7:
            ops.append(["fetch", rng.choice(keys)])
        elif r < 0.88 and regs:
            ops.append(["register", rng.choice(regs)])
        else:
            ops.append(["restart", rng.randrange(1000)])
    if cfg.random() < 0.35:
        # a key read, the blob files removed, a codec registered, the same key written again and read in the same
        # process (seeded change C17g: nothing remembered about a blob may outlive its files)
        k = rng.choice(keys)
        pat = [["store", k], ["fetch", k], ["wipe"], ["register", rng.choice(REGS)], ["store", k], ["fetch", k]]
        if rng.random() < 0.5:
            pat.remove(["wipe"])
        pos = rng.randrange(len(ops) + 1)
        ops[pos:pos] = pat
    return {"family": "hist", "lru": cfg.random() < 0.25, "vals": vals, "ops": ops}


def _mk(spec):
    if spec[0] == "frame":
        import pandas as pd

        n = spec[1]
        df = pd.DataFrame({"x": list(range(n)), "y": [f"é{i}" for i in range(n)], "z": [i / 2 for i in range(n)],
                           "b": [i % 2 == 0 for i in range(n)]})
        how = spec[2] if len(spec) > 2 else "plain"
        if how == "labels":
            df.index = [f"row{i}" for i in range(n)]
        elif how == "named":
            df = df.set_index("y")
        elif how == "filtered":
            df = df[df.x % 2 == 1]
        elif how == "multi":
            df = df.set_index(["b", "y"])
        elif how == "offset":
            df.index = list(range(10, 10 + n))
        return df
    return mk_value(spec)


def _canon(v):
    try:
        import pandas as pd

        if isinstance(v, pd.DataFrame):
            # columns, index names, index labels, values and column types: what DataFrame.equals compares
            return "frame:" + repr((list(v.columns), list(v.index.names), v.index.tolist(), v.to_dict(orient="list"),
                                    [str(t) for t in v.dtypes]))
    except ImportError:
        pass
    return canon(v)


def _register(name):
    from dds.codec import codec_registry

    reg = codec_registry()
    if name == "builtin_string":
        from dds.codecs.builtins import StringLocalFileCodec

        reg.add_file_codec(StringLocalFileCodec())
        return
    if name == "builtin_pickle":
        from dds.codecs.builtins import PickleLocalFileCodec

        reg.add_file_codec(PickleLocalFileCodec())
        return
    from ..storesim import usercodecs as uc

    cls, kind = uc.CODECS[name]
    if kind == "file":
        reg.add_file_codec(cls())
    else:
        reg.add_codec(cls())


def _segment(case, root, ops, state, reorder_seed):
    """Runs a list of ops in this (fresh) process; state = {"registered": [...], "written": {key: {...}}}."""
    ensure_repo_on_path()
    quiet_process()
    import random

    from dds.store import LocalFileStore

    from ..storesim import usercodecs as uc

    store = LocalFileStore(os.path.join(root, "int"), os.path.join(root, "data"))
    if case.get("lru"):
        from dds._lru_store import LRUCacheStore

        store = LRUCacheStore(store, num_elem=2)
    regs = list(state["registered"])
    if reorder_seed is not None:
        random.Random(reorder_seed).shuffle(regs)
    for r in regs:
        _register(r)
    log, violations, probes = [], [], {}
    fresh = reorder_seed is not None
    changed_since = {k: False for k in state["written"]}

    def probe(n):
        probes[n] = probes.get(n, 0) + 1

    for op in ops:
        k = op[0]
        if k == "register":
            _register(op[1])
            state["registered"].append(op[1])
            for kk in changed_since:
                changed_since[kk] = True
            log.append(["register", op[1]])
        elif k == "wipe":
            # every blob file (and its metadata) is removed behind the store's back: the keys are absent again
            bdir = os.path.join(root, "int", "blobs")
            for n in sorted(os.listdir(bdir)):
                fp = os.path.join(bdir, n)
                if os.path.isdir(fp) and not os.path.islink(fp):
                    rmtree(fp)
                else:
                    os.unlink(fp)
            state["written"].clear()
            changed_since.clear()
            probe("blobs_wiped")
            log.append(["wipe"])
        elif k == "store":
            key = op[1]
            spec = case["vals"][key]
            v = _mk(spec)
            del uc.LOG[:]
            try:
                store.store_blob(key, v, None)
            except BaseException as e:  # noqa
                violations.append({"oracle": "C17.value", "detail": f"store_blob({key}, {spec[:2]}) raised {type(e).__name__}: {str(e)[:200]}"})
                break
            ser = [x for x in uc.LOG if x[1] == "ser"]
            meta = json.load(open(os.path.join(root, "int", "blobs", key + ".meta")))
            ref = meta["protocol"]
            if ser:
                probe("user_codec_wrote")
                if ser[-1][0] != ref:
                    violations.append({"oracle": "C17.codec", "detail": f"{key}: serialised by {ser[-1][0]} but the metadata records {ref}"})
            state["written"][key] = {"ref": ref, "user": bool(ser)}
            changed_since[key] = False
            log.append(["store", key, spec[0], ref])
            # verbatim
            raw = open(os.path.join(root, "int", "blobs", key), "rb").read() if not spec[0] == "frame" else None
            if not ser and spec[0] in ("str", "bigstr") and ref == "local.string":
                probe("verbatim_checked")
                if raw != v.encode("utf-8"):
                    violations.append({"oracle": "C17.verbatim", "detail": f"{key}: text result is not stored verbatim ({raw[:20]!r}...)"})
            if not ser and spec[0] in ("bytes", "bytearray") and ref == "local.bytes":
                probe("verbatim_checked")
                if raw != bytes(v):
                    violations.append({"oracle": "C17.verbatim", "detail": f"{key}: bytes result is not stored verbatim"})
            if spec[0] == "frame":
                probe("pandas_frame")
            if spec[0] == "bigstr":
                probe("big_string")
        elif k == "fetch":
            key = op[1]
            if key not in state["written"]:
                continue
            spec = case["vals"][key]
            exp = _mk(spec)
            del uc.LOG[:]
            try:
                got = store.fetch_blob(key)
            except BaseException as e:  # noqa
                violations.append({"oracle": "C17.value", "detail": f"fetch_blob({key}) written with {state['written'][key]['ref']} raised "
                                                                  f"{type(e).__name__}: {str(e)[:200]} (registered: {state['registered']})"})
                break
            de = [x for x in uc.LOG if x[1] == "de"]
            w = state["written"][key]
            if fresh:
                probe("read_after_restart")
            if changed_since.get(key):
                probe("read_after_registration")
            log.append(["fetch", key, w["ref"], [x[0] for x in de], _canon(got)[:40]])
            same_type = type(got) is type(exp) or (isinstance(exp, bytearray) and isinstance(got, bytes))
            if _canon(got) != _canon(exp) and not (isinstance(exp, bytearray) and bytes(exp) == got):
                violations.append({"oracle": "C17.value", "detail": f"{key}: read back {_canon(got)[:80]} expected {_canon(exp)[:80]} "
                                                                  f"(written with {w['ref']}, registered {state['registered']})"})
            elif not same_type:
                violations.append({"oracle": "C17.value", "detail": f"{key}: read back type {type(got).__name__} expected {type(exp).__name__}"})
            if w["user"] and (not de or de[-1][0] != w["ref"]):
                if not case.get("lru"):
                    violations.append({"oracle": "C17.codec", "detail": f"{key}: written by {w['ref']} but deserialised by {[x[0] for x in de]}"})
            if not w["user"] and de:
                violations.append({"oracle": "C17.codec", "detail": f"{key}: written by {w['ref']} but deserialised by user codec {de[-1][0]}"})
        if violations:
            break
    return {"log": log, "violations": violations, "probes": probes, "state": state}


def run_case(case):
    root = new_scratch("c17")
    try:
        if case["family"] == "legacy_pandas":
            return fork_call(_legacy_pandas, (case, root), timeout=60)
        # split at restarts; every segment runs in its own forked process (the registry is process-global)
        segs, cur, seeds = [], [], [None]
        for op in case["ops"]:
            if op[0] == "restart":
                segs.append(cur)
                cur = []
                seeds.append(op[1])
            else:
                cur.append(op)
        segs.append(cur)
        state = {"registered": [], "written": {}}
        log, violations, probes = [], [], {}
        akey = [case.get("lru")]
        for seg, seed in zip(segs, seeds):
            r = fork_call(_segment, (case, root, seg, state, seed), timeout=90)
            state = r["state"]
            log.append(["segment", seed is not None])
            log.extend(r["log"])
            violations.extend(r["violations"])
            for k, v in r["probes"].items():
                probes[k] = probes.get(k, 0) + v
            akey.append([tuple(x[:3]) for x in r["log"]])
            if violations:
                break
        if case.get("lru"):
            probes["lru_wrapped"] = 1
        nt = probes.get("read_after_restart", 0) + probes.get("read_after_registration", 0) > 0
        return {"violations": violations[:3], "log": log, "probes": probes, "faults": {}, "nontrivial": nt,
                "key": repr(akey), "steps": len(case["ops"])}
    finally:
        rmtree(root)


def _legacy_pandas(case, root):
    ensure_repo_on_path()
    quiet_process()
    import pandas as pd
    from dds.store import LocalFileStore

    store = LocalFileStore(os.path.join(root, "int"), os.path.join(root, "data"))
    df = pd.DataFrame({"x": list(range(case["rows"]))})
    store.store_blob("kf", df, None)
    mp = os.path.join(root, "int", "blobs", "kf.meta")
    meta = json.load(open(mp))
    meta["protocol"] = "default.pandas_local"
    json.dump(meta, open(mp, "w"))
    violations = []
    try:
        got = store.fetch_blob("kf")
        ok = isinstance(got, pd.DataFrame) and got.equals(df)
        if not ok:
            violations.append({"oracle": "C17.value", "detail": "legacy reference default.pandas_local: frame read back differs"})
    except BaseException as e:  # noqa
        violations.append({"oracle": "C17.value", "detail": f"legacy reference default.pandas_local cannot be read: {type(e).__name__}: {str(e)[:200]}"})
    return {"violations": violations, "log": [["legacy_pandas", case["rows"]]], "probes": {"legacy_pandas_ref": 1, "pandas_frame": 1},
            "faults": {}, "nontrivial": True, "key": "legacy_pandas", "steps": 1}


def shrink(case):
    if case["family"] != "hist":
        return
    for ops in list_removals(case["ops"], 1):
        c = copy.deepcopy(case)
        c["ops"] = ops
        yield c
    if case.get("lru"):
        c = copy.deepcopy(case)
        c["lru"] = False
        yield c


def tags(case):
    if case["family"] != "hist":
        return [case["family"]]
    t = set()
    for op in case["ops"]:
        t.add("op:" + op[0] + (":" + op[1] if op[0] == "register" else ""))
        if op[0] in ("store", "fetch"):
            t.add("val:" + case["vals"][op[1]][0])
    if case.get("lru"):
        t.add("lru")
    return sorted(t)


def sample(case, res):
    return {"case": {k: v for k, v in case.items() if k != "_seed"}, "seed": case.get("_seed"), "log_tail": res["log"][-6:]}
