"""C10 - a failing user function is never cached and leaves dds and the store clean (engine P, fault = user-code
exception injected at the entry or just before the return of any function, twin-history oracle)."""
import copy

from ..core.util import new_scratch, rmtree
from ..pipe import gen, hist, twin
from ..pipe.world import World
from . import c01

PROP = "C10"
LEVEL = "exploration"
DESIGN_REF = "DESIGN.md 4.8, 7 (C10)"
BUDGETS = {"quick": 35.0, "thorough": 900.0}
CHUNK = 4
MINIMISE_BUDGET = 150
ORACLES = ("C10.",)
RULE = (
    "C01's programs and histories with 1-2 evaluations in which rec() - the first / last statement of every generated "
    "function, living in a non-accepted module - raises a seeded exception object (ValueError, custom Exception, "
    "KeyboardInterrupt, SystemExit, GeneratorExit, MemoryError) at the entry or just before the return of a seeded "
    "function reachable from the evaluated entry; followed by the same pipeline without the fault and by other "
    "pipelines, in the same process and after restarts. Oracles: identity of the propagated exception object; blobs "
    "appear only for kept functions that completed; no path is committed; the rest of the history is equivalent to the "
    "twin history without the failed evaluation (values and signatures equal, execution logs a subset). Non-trivial: "
    "the injected exception actually fired; distinct = run digests."
)
COMPONENTS = c01.COMPONENTS
ASSUMPTIONS = c01.ASSUMPTIONS + ["the fault point is the generated function's own rec() call; failures inside dds or the store are C06/C12 matters"]
PROBES = ["fault_fired", "fault_fired_after_children_completed", "fault_in_nested_kept_function", "base_exception_class",
          "twin_ops_compared", "fault_not_reached_cached"]
EXC = ["ValueError", "CustomError", "KeyboardInterrupt", "SystemExit", "GeneratorExit", "MemoryError", "KeyError", "IndexError",
       "TypeError", "AttributeError", "StopIteration", "FileExistsError", "FileNotFoundError", "AssertionError", "RuntimeError",
       "RecursionError", "OSError", "LookupError", "NotImplementedError", "ImportError", "DDSException",
       "FrozenError", "SlotsError"]

def _feat(cfg, avoid=()):
    f = gen.swarm_feat(cfg, avoid)
    f["loads"] = cfg.random() < 0.35      # loads of paths kept earlier in the (failing) evaluation
    f["p_load_never"] = 0.0
    return f


PROFILE = {
    "feat": _feat,
    "edits": ["var", "ver", "lit", "comment", "unrelated"],
    "n": (3, 8),
    "locations": ["package", "package", "package", "main", "notebook"],
    "p_restart": 0.5,
    "stores": ("local", "local", "local+cache", "memory"),
}


def gen_case(streams, tier, avoid):
    prof = dict(PROFILE)
    prof["avoid"] = avoid
    case = hist.gen_history(streams, tier, prof)
    f = streams.get("faults")
    # insert failing evaluations
    evals = [i for i, op in enumerate(case["ops"]) if op["op"] == "eval"]
    nfail = f.choice([1, 1, 2])
    progs = _versions_at(case)
    for _ in range(nfail):
        pos = f.choice(evals[:-1] or evals)
        op = case["ops"][pos]
        prog = progs[pos]
        # the failing evaluation is either the pipeline evaluated next (then "repaired") or another pipeline
        entry = op["entry"] if f.random() < 0.5 else f.choice(gen.entries(prog))
        if entry not in prog["funcs"]:
            continue
        reach = sorted(gen.reachable(prog, entry))
        target = f.choice(reach)
        at = target + (":end" if f.random() < 0.5 else "")
        style = op.get("style", "eval")
        new = {"op": "eval", "entry": entry, "style": style if prog["funcs"][entry]["kind"] == "data" else "eval",
               "snap": True, "fail": {"at": at, "cls": f.choice(EXC)}}
        case["ops"].insert(pos, new)
        progs.insert(pos, prog)
        evals = [i for i, op in enumerate(case["ops"]) if op["op"] == "eval"]
    return case


def _versions_at(case):
    """Program version in effect (for a process started now) before each op."""
    out = []
    versions = [case["prog"]]
    cur = 0
    for op in case["ops"]:
        out.append(versions[cur])
        if op["op"] == "edit":
            versions.append(gen.apply_edit(versions[cur], op["edit"]))
            cur = len(versions) - 1
        elif op["op"] == "revert":
            versions.append(versions[min(op["to"], len(versions) - 1)])
            cur = len(versions) - 1
    return out


def run_case(case):
    case = twin.with_ids(case)
    root1, root2 = new_scratch("p"), new_scratch("p2")
    try:
        w = World(case, root1)
        w.run()
        fails = [o for o in w.obs if o["op"] == "eval" and o.get("fail")]
        probes = dict(w.probes)

        def probe(n):
            probes[n] = probes.get(n, 0) + 1

        fired = []
        for o in fails:
            at = o["fail"]["at"]
            if at + "!fail" not in o["log"] and (o["ref"][0] == "loadmissing" or o.get("early_loads")):
                # the evaluation is rejected (or fails) because of a dds.load, before the fault point: C09's matter
                probe("fault_not_reached_load_error")
                continue
            if at + "!fail" not in o["log"]:
                probe("fault_not_reached_cached")
                # the function was served from the store: the evaluation must then succeed normally
                if o["res"][0] != "ok" or o["res"] != o["ref"]:
                    w.violate("C10.clean", f"op {o['i']}: fault point {at} was not reached but the evaluation returned {str(o['res'])[:200]}")
                continue
            fired.append(o)
            probe("fault_fired")
            if at.endswith(":end"):
                probe("fault_fired_after_children_completed")
            if at.split(":")[0] in o["kept_fns"] and at.split(":")[0] != o["entry"]:
                probe("fault_in_nested_kept_function")
            if o["fail"]["cls"] in ("KeyboardInterrupt", "SystemExit", "GeneratorExit"):
                probe("base_exception_class")
            # identity
            if o["res"][0] != "exc" or o["res"][1] != o["fail"]["cls"] or o["same_exc"] is not True:
                w.violate("C10.identity", f"op {o['i']} eval {o['entry']} with {o['fail']}: the call site caught {str(o['res'])[:200]} "
                                          f"(same object: {o['same_exc']})")
            # blobs only for kept functions that completed
            completed = [n[:-4] for n in o["log"] if n.endswith(":end") and n[:-4] in o["kept_fns"]]
            if o["store"] != "noop":
                if o["nstore_calls"] != len(completed):
                    w.violate("C10.noblob", f"op {o['i']} eval {o['entry']} failing at {at}: {o['nstore_calls']} blobs stored but "
                                            f"{len(completed)} kept functions completed ({completed})")
                if o["snap_before"] is not None:
                    newb = set(o["snap_after"]["blobs"]) - set(o["snap_before"]["blobs"])
                    if len(newb) != len(set(completed)) and len(newb) > len(completed):
                        w.violate("C10.noblob", f"op {o['i']}: store gained {len(newb)} blobs, {len(completed)} kept functions completed")
                    if o["snap_after"]["paths"] != o["snap_before"]["paths"]:
                        w.violate("C10.nopath", f"op {o['i']} eval {o['entry']} failing at {at}: committed paths changed")
            if o["nsync_calls"]:
                w.violate("C10.nopath", f"op {o['i']} eval {o['entry']} failing at {at}: sync_paths was called")
        # twin history: without the failing evaluations that fired
        fired_ids = {o["i"] for o in fired}
        if fired_ids:
            # a fault evaluation that did not fire in H (target served from the store) could fire in the twin:
            # the twin drops every fault evaluation; a non-fired one is an ordinary successful evaluation in H
            tcase = twin.twin_of(case, lambda op: bool(op.get("fail")))
            w2 = World(tcase, root2)
            w2.run()
            n = twin.compare_after(w, w2, min(fired_ids), "C10.clean", w.violate)
            probes["twin_ops_compared"] = n
        w.probes = probes
        res = c01.finish(w, ORACLES)
        res["faults"] = {"user_exception:" + o["fail"]["cls"]: 1 for o in fired}
        res["faults"]["user_exception"] = len(fired)
        res["nontrivial"] = bool(fired)
        return res
    finally:
        rmtree(root1)
        rmtree(root2)


shrink = c01.shrink
tags = c01.tags
sample = c01.sample
