"""C06 - a process killed at any instant never leaves a store that serves wrong data (engine F).

A case is a workload (program, optional edit, set-up evaluations, options). The run first records the victim's
gates uninterrupted, then for every gate re-runs the victim from the same set-up state, kills it there (kill -9:
process state lost, completed system calls durable) and checks what fresh recovery processes see.
"""
import copy
import hashlib
import os
import shutil

from ..core.shrink import list_removals
from ..core.util import HarnessError, new_scratch, rmtree, sha
from ..pipe import ir
from ..pipe.ref import ref_eval, write_tree
from ..procsim import workloads
from ..procsim.sched import Sim

PROP = "C06"
LEVEL = "fault_enumeration"
DESIGN_REF = "DESIGN.md 5, 7 (C06)"
BUDGETS = {"quick": 40.0, "thorough": 900.0}
CHUNK = 1
MINIMISE_BUDGET = 40
MINIMISE_CAP = 3
RULE = (
    "workloads are sampled from a seeded generator (2-6 functions, data functions and kept calls nested and shared, "
    "1-3 segment paths with shared directories, str / bytes / pickled results of 0 B - 70 KB, 0-2 set-up evaluations, "
    "optional edit so the victim re-keeps existing paths, optional object cache); within a workload EVERY gate of the "
    "victim (stat, lstat, mkdir, open, each half of each write, close, read, remove, symlink, rename, ...) is a crash "
    "point, thorough adds second crashes inside the recovery. evaluations = crash points executed; a crash point is "
    "non-trivial when the kill left the store directories different from the set-up state and from the completed "
    "state; distinct = distinct (workload digest, file-system state hash after the kill)."
)
COMPONENTS = {
    "real": ["all of dds from /repo (store.py, _api.py, codecs, introspection)", "CPython os/posix", "tmpfs",
             "pickle, json"],
    "stub": ["write proxy modelling CPython's userspace buffering (data reaches the file at flush/close in two "
             "halves, each a crash point)", "virtual clock for time.time/monotonic", "dds-free reference shim"],
}
ASSUMPTIONS = [
    "kill -9 semantics: completed system calls are durable, userspace buffers are lost (no power-loss / un-synced write model)",
    "pandas/parquet I/O is not intercepted; workloads use str, bytes and pickled results",
    "crash points are complete per sampled workload only; workloads are sampled",
]
PROBES = ["clock_advanced_between_phases", "root_is_kept", "literal_kill_crosscheck", "recoveries_executed", "crash_blob_present_meta_absent", "crash_half_blob", "crash_half_meta", "crash_between_remove_and_symlink",
          "crash_during_store_creation", "crash_link_tmp_or_rename", "crash_rekeep", "second_crash",
          "crash_nested_data_dir"]


def gen_case(streams, tier, avoid):
    cfg = streams.get("config")
    rng = streams.get("program")
    root_kept = cfg.random() < 0.4
    prog = workloads.gen_program(rng, big=cfg.random() < 0.6, root_kept=root_kept)
    names = sorted(prog["funcs"])
    setup = cfg.choice([0, 1, 1, 2])
    edit = None
    if setup and cfg.random() < 0.7:
        edit = {"f": cfg.choice(names)}
    case = {
        "prog": prog,
        "edit": edit,
        "setup_evals": setup,
        "cache": cfg.choice([None, None, 2, True]),
        "nested_dirs": cfg.random() < 0.3,
        "crash_plan": None,
        "second": 0,
        # how the root is evaluated: dds.eval(f0), or - for a root that is a data function - the plain call f0()
        "root_style": cfg.choice(["call", "call", "eval"]) if root_kept else "eval",
        # simulated time between the set-up runs, the victim and the recoveries (minutes .. months)
        "clock_advance": cfg.choice([0, 0, 90.0, 7200.0, 86400.0 * 40]),
    }
    case["second"] = cfg.choice([0, 0, 2]) if tier == "quick" else cfg.choice([0, 3, 6])
    case["second_seed"] = cfg.randrange(1 << 30)
    return case


_TMP = __import__("re").compile(r"\.tmp\.\d+\.[0-9a-f]+")


def _norm_tmp(x):
    """Temporary names carry the pid and a random part that differ between incarnations of a process."""
    if isinstance(x, str):
        return _TMP.sub(".tmp.N", x)
    if isinstance(x, (list, tuple)):
        return [_norm_tmp(y) for y in x]
    return x


def _fs_state(root):
    return sorted(_norm_tmp(list(t)) for t in _fs_state_raw(root))


def _fs_state_raw(root):
    items = []
    for dp, dns, fns in os.walk(root):
        dns.sort()
        for n in sorted(fns + [d for d in dns if os.path.islink(os.path.join(dp, d))]):
            p = os.path.join(dp, n)
            rel = os.path.relpath(p, root)
            if os.path.islink(p):
                t = os.readlink(p)
                if t.startswith(root):
                    t = "$R" + t[len(root):]
                items.append((rel, "L", t))
            else:
                with open(p, "rb") as f:
                    items.append((rel, "F", hashlib.sha256(f.read()).hexdigest()[:16]))
        for d in dns:
            if not os.path.islink(os.path.join(dp, d)):
                items.append((os.path.relpath(os.path.join(dp, d), root), "D", ""))
    return sorted(items)


def _new_prog(case):
    p = ir.clone(case["prog"])
    if case["edit"]:
        p["funcs"][case["edit"]["f"]]["ver"] += 1
    return p


def _classify(parked, live):
    """Tags / probes for the operation the victim was parked at when killed."""
    op, args = parked[0], parked[1]
    path = args[0] if args and isinstance(args[0], str) else ""
    if "/blobs/" in path:
        cls = ("metatmp" if ".tmp" in path else "meta") if ".meta" in path else ("blobtmp" if ".tmp" in path else "blob")
    elif path.startswith("$R/data"):
        cls = "link"
    elif path.startswith("$R/int"):
        cls = "intdir"
    else:
        cls = "other"
    extra = ""
    if op == "write":
        extra = f":{args[1]}/{args[2]}"
    return f"crash:{op}:{cls}{extra}"


def run_case(case):
    root = new_scratch("c06")
    try:
        return _run(case, root)
    finally:
        rmtree(root)


def _run(case, root):
    old = case["prog"]
    new = _new_prog(case)
    src_old, src_new = os.path.join(root, "src_old"), os.path.join(root, "src_new")
    write_tree(src_old, ir.render(old))
    write_tree(src_new, ir.render(new))
    entry = ir.modname(old, "m0") + ":f0"
    (ro,), told = ref_eval(src_old, [{"entry": entry}])
    (rn,), tnew = ref_eval(src_new, [{"entry": entry}])
    if ro["res"][0] != "ok" or rn["res"][0] != "ok":
        raise HarnessError(f"reference run failed: {ro['res']} {rn['res']}")
    old_val, new_val = ro["res"], rn["res"]
    from ..storesim.values import canon

    old_tab = {p: canon(v) for p, v in told.items()}
    new_tab = {p: canon(v) for p, v in tnew.items()}
    live = os.path.join(root, "live")
    snap = os.path.join(root, "snap")
    os.makedirs(live)
    idir = os.path.join(live, "int", "x", "y") if case.get("nested_dirs") else os.path.join(live, "int")
    ddir = os.path.join(live, "data", "u") if case.get("nested_dirs") else os.path.join(live, "data")
    seed_hex = sha("c06", repr(sorted(old["funcs"])))

    def job(src, ops):
        return [{"op": "set_store", "internal": idir, "data": ddir, "cache": case.get("cache"), "invoke_gate": False},
                {"op": "import", "srcdir": src, "modules": [ir.modname(old, "m0")], "accept": ["pk"],
                 "invoke_gate": False}] + ops

    ev = {"op": case.get("root_style", "eval"), "entry": entry, "invoke_gate": False}
    if old["funcs"]["f0"]["kind"] == "data":
        probe_root = True
    else:
        probe_root = False
    log = []
    violations = []
    probes = {}
    faults = {}
    keys = set()
    sim_time = 0.0
    steps = 0

    def probe(n):
        probes[n] = probes.get(n, 0) + 1

    if probe_root:
        probe("root_is_kept")

    adv = float(case.get("clock_advance") or 0)

    def mk_sim(phase):
        """Every later phase (victim, recovery, ...) starts `clock_advance` simulated seconds after the previous one."""
        sm = Sim(live, seed_hex)
        if adv and phase:
            sm.wall += adv * phase
            sm.mono += adv * phase
        return sm

    if adv:
        probe("clock_advanced_between_phases")
        faults["clock_jump"] = faults.get("clock_jump", 0) + 1

    def run_to_end(jb):
        sim = mk_sim(0)
        try:
            p = sim.spawn(jb)
            n = sim.run_alone(p)
            if n < 0:
                return sim, p, None
            return sim, p, n
        finally:
            sim.close()

    # ---- set-up phase
    for k in range(case["setup_evals"]):
        sim, p, n = run_to_end(job(src_old, [ev]))
        steps += n or 0
        if p.results.get(2) != old_val:
            violations.append({"oracle": "C06.baseline", "detail": f"set-up evaluation {k} returned {p.results.get(2)} "
                                                                   f"instead of {old_val} (no crash involved)"})
            return {"violations": violations, "log": log, "probes": probes, "faults": faults, "nontrivial": False}
    committed = dict(old_tab) if case["setup_evals"] else {}
    if os.path.exists(snap):
        shutil.rmtree(snap)
    shutil.copytree(live, snap, symlinks=True)
    s0 = sha(repr(_fs_state(live)))

    def restore():
        shutil.rmtree(live)
        shutil.copytree(snap, live, symlinks=True)

    # ---- victim, uninterrupted: record every gate and snapshot the directories whenever they changed.
    # Under kill -9 semantics (process state lost, completed system calls durable) "killed while parked at gate i"
    # leaves exactly the directory state that exists when the victim reaches gate i, so one recorded run yields the
    # post-kill state of every crash point; a seeded sample of gates (and every replay) is additionally killed
    # literally and compared with the recorded state.
    snaps = os.path.join(root, "snaps")
    os.makedirs(snaps)
    sim = mk_sim(1)
    gate_info = []          # per gate: (parked_at, state hash)
    snap_of = {}            # state hash -> snapshot dir
    try:
        v = sim.spawn(job(src_new, [ev]))
        last = None
        while v.state == "parked":
            st = sha(repr(_fs_state(live)))
            if st != last and st not in snap_of:
                d = os.path.join(snaps, str(len(snap_of)))
                shutil.copytree(live, d, symlinks=True)
                snap_of[st] = d
            last = st
            gate_info.append((v.parked_at, st))
            if len(gate_info) > 20000:
                raise HarnessError("victim exceeds 20000 gates")
            sim.step(v)
        steps += sim.seq
        sim_time += sim.sim_time
        res_v = v.results.get(2)
    finally:
        sim.close()
    if res_v != new_val:
        violations.append({"oracle": "C06.baseline", "detail": f"uninterrupted victim returned {res_v} "
                                                               f"instead of {new_val}"})
        return {"violations": violations, "log": log, "probes": probes, "faults": faults, "nontrivial": False}
    ngates = len(gate_info)
    s_end = sha(repr(_fs_state(live)))
    log.append(["victim", ngates, s0[:12], s_end[:12], len(snap_of)])
    wdigest = sha(repr([g[0] for g in gate_info]))[:12]

    plan = case["crash_plan"]
    literal = set()
    if plan is None:
        plan = [[i] for i in range(ngates)]
        import random

        r2 = random.Random(case.get("second_seed", 0) ^ ngates)
        literal = {r2.randrange(ngates) for _ in range(2)}
        for _ in range(case.get("second") or 0):
            plan.append([r2.randrange(ngates), r2.randrange(0, 80)])
    else:
        literal = {c[0] for c in plan}

    def restore_to(st):
        shutil.rmtree(live)
        shutil.copytree(snap_of[st], live, symlinks=True)

    def check_recovery_results(p, crash, what):
        """p ran rec_job: set_store, import, loads of committed paths..., eval new, loads of all new paths."""
        out = []
        idx = 2
        for path in sorted(committed):
            r = p.results.get(idx)
            idx += 1
            okv = {("ok", old_tab[path])} | ({("ok", new_tab[path])} if path in new_tab else set())
            if r is None or tuple(r[:2]) not in okv:
                out.append({"oracle": "C06.paths",
                            "detail": f"crash {crash} at {what}: path {path} committed before the crash loads "
                                      f"{_short(r)}; allowed old={_short(old_tab[path])} new={_short(new_tab.get(path))}"})
        r = p.results.get(idx)
        idx += 1
        if r is None or r[0] != "ok":
            out.append({"oracle": "C06.recover", "detail": f"crash {crash} at {what}: re-evaluation raised {_short(r)}"})
        elif r != new_val:
            out.append({"oracle": "C06.value", "detail": f"crash {crash} at {what}: re-evaluation returned {_short(r)} "
                                                         f"expected {_short(new_val)}"})
        for path in sorted(new_tab):
            r = p.results.get(idx)
            idx += 1
            if r is None or r[0] != "ok" or r[1] != new_tab[path]:
                out.append({"oracle": "C06.value" if r and r[0] == "ok" else "C06.recover",
                            "detail": f"crash {crash} at {what}: after recovery path {path} loads {_short(r)} "
                                      f"expected {_short(new_tab[path])}"})
        return out

    rec_job = job(src_new, [{"op": "load", "path": pth, "invoke_gate": False} for pth in sorted(committed)] + [ev] +
                  [{"op": "load", "path": pth, "invoke_gate": False} for pth in sorted(new_tab)])
    rec_old_job = job(src_old, [ev] + [{"op": "load", "path": pth, "invoke_gate": False} for pth in sorted(old_tab)])

    done_states = {}
    for crash in plan:
        i = crash[0]
        if i >= ngates:
            log.append(["crash", crash, "beyond last gate"])
            continue
        parked, st = gate_info[i]
        what = f"{parked[0]}{parked[1]}"
        ctag = _classify(parked, live)
        faults["kill"] = faults.get("kill", 0) + 1
        if i in literal:
            # literal kill -9 of a re-run victim parked at gate i; must leave the recorded state
            restore()
            sim = mk_sim(1)
            try:
                v = sim.spawn(job(src_new, [ev]))
                sim.run_alone(v, kill_at=i)
                steps += sim.seq
                if v.state != "killed" or _norm_tmp(list(v.parked_at)) != _norm_tmp(list(parked)):
                    raise HarnessError(f"victim replay diverged at gate {i}: {v.state} {v.parked_at} vs {parked}")
            finally:
                sim.close()
            st_lit = sha(repr(_fs_state(live)))
            if st_lit != st:
                raise HarnessError(f"literal kill at gate {i} left a state different from the recorded one")
            probe("literal_kill_crosscheck")
        nontriv = st not in (s0, s_end)
        if nontriv:
            keys.add(wdigest + st[:16])
        if len(crash) == 1 and st in done_states:
            # same durable state as an earlier crash point: the recovery (a fresh process) sees the same world
            found0 = done_states[st]
            log.append(["crash", crash, what, st[:12], "same-state-as", found0[0]])
            _crash_probes(parked, snap_of[st], idir.replace(live, snap_of[st]), probe, case)
            continue
        restore_to(st)
        _crash_probes(parked, live, idir, probe, case)
        if len(crash) > 1:
            # second crash inside the recovery
            sim = mk_sim(2)
            try:
                r1 = sim.spawn(rec_job)
                sim.run_alone(r1, kill_at=crash[1])
                if r1.state == "killed":
                    probe("second_crash")
                    faults["kill"] = faults.get("kill", 0) + 1
                    what += f" then {r1.parked_at[0]}{r1.parked_at[1]}"
                steps += sim.seq
            finally:
                sim.close()
        sim = mk_sim(3)
        try:
            r = sim.spawn(rec_job)
            n = sim.run_alone(r, max_steps=20000)
            steps += sim.seq
            sim_time += sim.sim_time
        finally:
            sim.close()
        found = []
        if n < 0:
            found.append({"oracle": "C06.recover", "detail": f"crash {crash} at {what}: recovery made no progress in 20000 steps"})
        else:
            found += check_recovery_results(r, crash, what)
        if not found and case["edit"] is not None:
            sim = mk_sim(4)
            try:
                r2 = sim.spawn(rec_old_job)
                n2 = sim.run_alone(r2)
                steps += sim.seq
            finally:
                sim.close()
            res = r2.results.get(2)
            if res is None or res[0] != "ok":
                found.append({"oracle": "C06.recover", "detail": f"crash {crash} at {what}: evaluating the pre-edit version raised {_short(res)}"})
            elif res != old_val:
                found.append({"oracle": "C06.value", "detail": f"crash {crash} at {what}: pre-edit version returned {_short(res)} expected {_short(old_val)}"})
            for k2, path in enumerate(sorted(old_tab)):
                res = r2.results.get(3 + k2)
                if res is None or res[0] != "ok" or res[1] != old_tab[path]:
                    found.append({"oracle": "C06.value" if res and res[0] == "ok" else "C06.recover",
                                  "detail": f"crash {crash} at {what}: pre-edit path {path} loads {_short(res)}"})
        log.append(["crash", crash, what, st[:12], [f["oracle"] for f in found]])
        if len(crash) == 1:
            done_states[st] = (crash, [f["oracle"] for f in found])
            probe("recoveries_executed")
        for f in found:
            f["tags"] = [ctag] + (["rekeep"] if committed else []) + (["second-crash"] if len(crash) > 1 else [])
            f["at"] = crash
        if found:
            seen = {v["oracle"] for v in violations}
            violations += [f for f in found if f["oracle"] not in seen][:3]
            if case["crash_plan"] is None and len({v["oracle"] for v in violations}) >= 2:
                break
    return {"violations": violations, "log": log, "probes": probes, "faults": faults,
            "nontrivial": bool(keys), "key": wdigest, "keys": sorted(keys), "units": max(1, len(plan)),
            "sim_time": sim_time, "steps": steps}


def _short(r):
    s = repr(r)
    return s if len(s) < 160 else s[:150] + "...(" + str(len(s)) + ")"


def _crash_probes(parked, live, idir, probe, case):
    op, args = parked
    path = args[0] if args and isinstance(args[0], str) else ""
    blobs = os.path.join(idir, "blobs")
    if os.path.isdir(blobs):
        names = set(os.listdir(blobs))
        for n in names:
            if not n.endswith(".meta") and ".tmp" not in n and n + ".meta" not in names:
                probe("crash_blob_present_meta_absent")
                break
    else:
        probe("crash_during_store_creation")
    if op == "write" and len(args) >= 3 and args[1] == 2:
        probe("crash_half_meta" if ".meta" in path else "crash_half_blob")
    if op == "symlink":
        probe("crash_between_remove_and_symlink" if case["setup_evals"] and case["edit"] else "crash_before_first_symlink")
    if op == "rename" or ".tmp" in path:
        probe("crash_link_tmp_or_rename")
    if case["setup_evals"]:
        probe("crash_rekeep")
    if op == "mkdir" and "/data/" in path:
        probe("crash_nested_data_dir")


def extra_evidence(results, order):
    return {}


# ---------------------------------------------------------------------------------------------


def finalize(case, violation):
    c = copy.deepcopy(case)
    if violation.get("at") is not None:
        c["crash_plan"] = [violation["at"]]
    return c


def shrink(case):
    base = copy.deepcopy(case)
    if base["crash_plan"] is not None:
        base["crash_plan"] = None  # gate numbers move when the workload changes: sweep again
    prog = base["prog"]
    names = sorted(prog["funcs"])
    # drop a function together with every reference to it
    for fn in reversed(names):
        if fn == "f0":
            continue
        c = copy.deepcopy(base)
        del c["prog"]["funcs"][fn]
        c["prog"]["order"] = [x for x in c["prog"]["order"] if x != fn]
        for g in c["prog"]["funcs"].values():
            g["body"] = [it for it in g["body"] if it.get("f") != fn]
        if c["edit"] and c["edit"]["f"] == fn:
            c["edit"] = None
        yield c
    if base.get("clock_advance"):
        c = copy.deepcopy(base)
        c["clock_advance"] = 0
        yield c
    if base["setup_evals"] > 0:
        c = copy.deepcopy(base)
        c["setup_evals"] -= 1
        if c["setup_evals"] == 0:
            c["edit"] = None
        yield c
    if base["edit"]:
        c = copy.deepcopy(base)
        c["edit"] = None
        yield c
    for k in ("cache", "nested_dirs", "second"):
        if base.get(k):
            c = copy.deepcopy(base)
            c[k] = None if k == "cache" else (0 if k == "second" else False)
            yield c
    for fn in names:
        f = prog["funcs"][fn]
        if f.get("pad"):
            c = copy.deepcopy(base)
            c["prog"]["funcs"][fn]["pad"] = 0
            yield c
        if f.get("ret", "tuple") != "tuple":
            c = copy.deepcopy(base)
            c["prog"]["funcs"][fn]["ret"] = "tuple"
            yield c
        for body in list_removals(f["body"]):
            c = copy.deepcopy(base)
            c["prog"]["funcs"][fn]["body"] = body
            # keep only functions still referenced
            yield c


def tags(case):
    t = set()
    if case["setup_evals"]:
        t.add("setup")
    if case["edit"]:
        t.add("edit")
    if case.get("cache"):
        t.add("cache")
    if case["prog"]["funcs"]["f0"]["kind"] == "data":
        t.add("root:kept")
    if case.get("clock_advance"):
        t.add("clock:advanced")
    return sorted(t)


def sample(case, res):
    return {"workload": {k: v for k, v in case.items() if k not in ("_seed",)}, "seed": case.get("_seed"),
            "crash_log_head": res["log"][:8]}
