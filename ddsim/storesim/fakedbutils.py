"""In-process fake of the subset of `dbutils.fs` that dds calls (cp, head, put, rm), backed by a directory so
that its content survives simulated process restarts. `file://` URIs are bridged to the local file system."""
import os
import shutil


class FakeFsError(Exception):
    pass


class _Fs:
    def __init__(self, root):
        self.root = os.path.join(root, "dbfs")
        os.makedirs(self.root, exist_ok=True)
        self.log = []

    def _loc(self, uri):
        uri = str(uri)
        if uri.startswith("file://"):
            return uri[len("file://"):]
        if uri.startswith("dbfs:"):
            uri = uri[len("dbfs:"):]
        return os.path.join(self.root, uri.lstrip("/"))

    def cp(self, src, dst, recurse=False):
        self.log.append(("cp", str(src), str(dst)))
        s, d = self._loc(src), self._loc(dst)
        if not os.path.exists(s):
            raise FakeFsError(f"java.io.FileNotFoundException: {src}")
        os.makedirs(os.path.dirname(d), exist_ok=True)
        if os.path.isdir(s):
            if not recurse:
                raise FakeFsError(f"cp of a directory without recurse: {src}")
            if os.path.exists(d):
                shutil.rmtree(d)
            shutil.copytree(s, d)
        else:
            shutil.copyfile(s, d)
        return True

    def head(self, path, maxBytes=65536):
        self.log.append(("head", str(path)))
        p = self._loc(path)
        if not os.path.isfile(p):
            raise FakeFsError(f"java.io.FileNotFoundException: {path}")
        with open(p, "rb") as f:
            return f.read(maxBytes).decode("utf-8", "replace")

    def put(self, path, contents, overwrite=False):
        self.log.append(("put", str(path)))
        p = self._loc(path)
        if os.path.exists(p) and not overwrite:
            raise FakeFsError(f"FileAlreadyExistsException: {path}")
        os.makedirs(os.path.dirname(p), exist_ok=True)
        with open(p, "wb") as f:
            f.write(contents.encode("utf-8"))
        return True

    def rm(self, path, recurse=False):
        self.log.append(("rm", str(path)))
        p = self._loc(path)
        if os.path.isdir(p):
            if not recurse:
                raise FakeFsError(f"rm of a directory without recurse: {path}")
            shutil.rmtree(p)
        elif os.path.exists(p):
            os.remove(p)
        return True


class FakeDbutils:
    def __init__(self, root):
        self.fs = _Fs(root)
