"""Kept functions used by API-level store checks (accepted module)."""
from ddsim.storesim.values import Obj


def make_obj(i):
    return Obj(i)


def make_val(kind, n):
    if kind == "str":
        return f"s{n}-é" + "x" * (n % 7)
    if kind == "bytes":
        return bytes([n % 256, 0, 255, n % 7])
    if kind == "none":
        return None
    if kind == "empty":
        return ""
    return Obj(n, "payload")


# One evaluation that keeps the same result (same function, same literal arguments: one blob key) under two paths.
import dds  # noqa: E402


def alias0():
    a = dds.keep("/al/x", make_val, "str", 1)
    b = dds.keep("/al/y", make_val, "str", 1)
    return (a, b)


def alias1():
    a = dds.keep("/al/x", make_val, "obj", 2)
    b = dds.keep("/am/z", make_val, "obj", 2)
    c = dds.keep("/al/y", make_val, "bytes", 3)
    return (a, b, c)


def alias2():
    a = dds.keep("/am/z", make_val, "bytes", 3)
    b = dds.keep("/al/y", make_val, "bytes", 3)
    c = dds.keep("/al/w", make_val, "bytes", 3)
    return (a, b, c)


ALIASES = {
    "alias0": [("/al/x", "str", 1), ("/al/y", "str", 1)],
    "alias1": [("/al/x", "obj", 2), ("/am/z", "obj", 2), ("/al/y", "bytes", 3)],
    "alias2": [("/am/z", "bytes", 3), ("/al/y", "bytes", 3), ("/al/w", "bytes", 3)],
}
