"""Kept functions used by API-level store checks (accepted module)."""
from ddsim.storesim.values import Obj


def make_obj(i):
    return Obj(i)
