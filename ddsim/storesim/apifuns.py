"""Kept functions used by API-level store checks (accepted module)."""
from ddsim.storesim.values import Obj


def make_obj(i):
    return Obj(i)


def make_val(kind, n):
    if kind == "str":
        return f"s{n}-é" + "x" * (n % 7)
    if kind == "bytes":
        return bytes([n % 256, 0, 255, n % 7])
    if kind == "none":
        return None
    if kind == "empty":
        return ""
    return Obj(n, "payload")
