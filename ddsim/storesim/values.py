"""Value alphabet for store-level machines. Obj must be importable for pickle in any process."""


class Obj(object):
    """A picklable, weak-referenceable result object."""

    def __init__(self, n, payload=""):
        self.n = n
        self.payload = payload

    def __eq__(self, other):
        return isinstance(other, Obj) and (self.n, self.payload) == (other.n, other.payload)

    def __hash__(self):
        return hash((self.n, self.payload))

    def __repr__(self):
        return f"Obj({self.n!r},{self.payload!r})"


class Obj2(object):
    """Same NAME as ddsim.storesim.Obj2 but another class, defined in a sub-module and without a codec of its own."""

    def __init__(self, n):
        self.n = n

    def __eq__(self, other):
        return type(other) is Obj2 and other.n == self.n

    def __hash__(self):
        return hash(("inner", self.n))

    def __repr__(self):
        return f"InnerObj2({self.n!r})"


def mk_value(spec):
    k = spec[0]
    if k == "obj2inner":
        return Obj2(spec[1])
    if k == "obj2pkg":
        from ddsim.storesim import Obj2 as PkgObj2

        return PkgObj2(spec[1])
    if k == "str":
        return spec[1]
    if k == "bigstr":
        return (spec[1] * (spec[2] // max(1, len(spec[1])) + 1))[: spec[2]]
    if k == "bytes":
        return bytes.fromhex(spec[1])
    if k == "bytearray":
        return bytearray(bytes.fromhex(spec[1]))
    if k == "none":
        return None
    if k == "obj":
        return Obj(spec[1], spec[2] if len(spec) > 2 else "")
    if k == "int":
        return spec[1]
    if k == "float":
        return float(spec[1])
    if k == "list":
        return [mk_value(s) for s in spec[1]]
    if k == "tuple":
        return tuple(mk_value(s) for s in spec[1])
    if k == "dict":
        return {kk: mk_value(v) for kk, v in spec[1]}
    raise ValueError(spec)


def canon(v):
    """Canonical text of a value including its type (comparison across processes)."""
    if isinstance(v, (bytes, bytearray)):
        return f"{type(v).__name__}:{bytes(v).hex()}"
    if isinstance(v, str) and len(v) > 200:
        import hashlib

        return f"str[{len(v)}]:{hashlib.sha256(v.encode('utf-8')).hexdigest()}"
    return f"{type(v).__name__}:{v!r}"
