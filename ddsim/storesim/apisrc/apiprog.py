"""Kept functions for API-level store checks (accepted module `apiprog`)."""
import dds
from simutil import rec
from ddsim.storesim.values import Obj


def make(kind, n):
    rec("make")
    if kind == "str":
        return f"s{n}-é" + "x" * (n % 7)
    if kind == "bytes":
        return bytes([n % 256, 0, 255, n % 7])
    if kind == "none":
        return None
    if kind == "empty":
        return ""
    return Obj(n, "payload")
