"""Kept functions for API-level store checks (accepted module `apiprog`)."""
import dds
from simutil import rec
from ddsim.storesim.values import Obj


def make(kind, n):
    rec("make")
    if kind == "str":
        return f"s{n}-é" + "x" * (n % 7)
    if kind == "bytes":
        return bytes([n % 256, 0, 255, n % 7])
    if kind == "none":
        return None
    if kind == "empty":
        return ""
    return Obj(n, "payload")


def inner(kind, n):
    rec("inner")
    return ("inner", _val(kind, n))


def outer(kind, n):
    """A kept function that keeps an intermediate result itself (two paths per evaluation)."""
    rec("outer")
    a = dds.keep("/stage/inner", inner, kind, n)
    return ("outer", a)


def _val(kind, n):
    if kind == "str":
        return f"s{n}-é" + "x" * (n % 7)
    if kind == "bytes":
        return bytes([n % 256, 0, 255, n % 7])
    if kind == "none":
        return None
    if kind == "empty":
        return ""
    return Obj(n, "payload")
