"""Execution log for the API-level store checks (non-accepted module, same interface as the generated one)."""
LOG = []
FAIL = None


def rec(name):
    f = FAIL
    if f is not None and f["at"] == name:
        LOG.append(name + "!fail")
        raise f["exc"]
    LOG.append(name)
    return name
