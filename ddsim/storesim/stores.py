"""Construction of real dds stores from explicit specs, plus the fault-injecting wrapper."""
import os


def make_store(spec, root):
    """spec: {"kind": "memory"|"local"|"lru"|"noop"|"dbfs", ...}; directories are relative to root."""
    from dds.store import LocalFileStore, MemoryStore, NoOpStore

    k = spec["kind"]
    if k == "memory":
        return MemoryStore()
    if k == "noop":
        return NoOpStore()
    if k == "local":
        return LocalFileStore(os.path.join(root, spec["internal"]), os.path.join(root, spec["data"]))
    if k == "lru":
        from dds._lru_store import LRUCacheStore

        return LRUCacheStore(make_store(spec["inner"], root), num_elem=spec["cap"])
    if k == "faulty":
        return FaultyStore(make_store(spec["inner"], root))
    raise ValueError(spec)


class InjectedStoreFault(OSError):
    pass


def _faulty_cls():
    from dds.store import Store

    class FaultyStore(Store):
        """Delegates to inner; while armed, every inner call raises InjectedStoreFault before delegating."""

        def __init__(self, inner):
            self.inner = inner
            self.armed = False
            self.fired = 0
            self.calls = 0

        def _gate(self):
            self.calls += 1
            if self.armed:
                self.fired += 1
                raise InjectedStoreFault("injected inner-store fault")

        def has_blob(self, key):
            self._gate()
            return self.inner.has_blob(key)

        def fetch_blob(self, key):
            self._gate()
            return self.inner.fetch_blob(key)

        def store_blob(self, key, blob, codec=None):
            self._gate()
            return self.inner.store_blob(key, blob, codec)

        def sync_paths(self, paths):
            self._gate()
            return self.inner.sync_paths(paths)

        def fetch_paths(self, paths):
            self._gate()
            return self.inner.fetch_paths(paths)

        def codec_registry(self):
            return self.inner.codec_registry()

    return FaultyStore


def FaultyStore(inner):
    return _faulty_cls()(inner)
