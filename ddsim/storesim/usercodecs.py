"""Instrumented user codecs for C17 (importable in every process)."""
import json
import os
import pickle

from dds.structures import CodecProtocol, FileCodecProtocol, ProtocolRef, SupportedType

LOG = []


def _note(ref, what, loc):
    LOG.append((ref, what, os.path.basename(str(loc)).split(".tmp")[0]))


class TagStrCodec(FileCodecProtocol):
    def ref(self):
        return ProtocolRef("user.tagstr")

    def handled_types(self):
        return [SupportedType("str")]

    def serialize_into(self, blob, loc):
        _note("user.tagstr", "ser", loc)
        with open(str(loc), "wb") as f:
            f.write(b"TAG:" + blob.encode("utf-8"))

    def deserialize_from(self, loc):
        _note("user.tagstr", "de", loc)
        with open(str(loc), "rb") as f:
            return f.read()[4:].decode("utf-8")


class ObjJsonCodec(FileCodecProtocol):
    def ref(self):
        return ProtocolRef("user.objjson")

    def handled_types(self):
        return [SupportedType("ddsim.storesim.values.Obj")]

    def serialize_into(self, blob, loc):
        _note("user.objjson", "ser", loc)
        with open(str(loc), "w") as f:
            json.dump({"n": blob.n, "payload": blob.payload}, f)

    def deserialize_from(self, loc):
        from ddsim.storesim.values import Obj

        _note("user.objjson", "de", loc)
        with open(str(loc)) as f:
            d = json.load(f)
        return Obj(d["n"], d["payload"])


class ObjPickle2Codec(CodecProtocol):
    """A non-file codec (location string) for the same type, with another reference."""

    def ref(self):
        return ProtocolRef("user.objpickle2")

    def handled_types(self):
        return [SupportedType("ddsim.storesim.values.Obj")]

    def serialize_into(self, blob, loc):
        _note("user.objpickle2", "ser", loc)
        with open(str(loc), "wb") as f:
            f.write(b"P2" + pickle.dumps(blob))

    def deserialize_from(self, loc):
        _note("user.objpickle2", "de", loc)
        with open(str(loc), "rb") as f:
            return pickle.loads(f.read()[2:])


class BytesUpperCodec(FileCodecProtocol):
    def ref(self):
        return ProtocolRef("user.bytes2")

    def handled_types(self):
        return [SupportedType("bytes")]

    def serialize_into(self, blob, loc):
        _note("user.bytes2", "ser", loc)
        with open(str(loc), "wb") as f:
            f.write(b"B2" + bytes(blob))

    def deserialize_from(self, loc):
        _note("user.bytes2", "de", loc)
        with open(str(loc), "rb") as f:
            return f.read()[2:]


class PkgObj2Codec(FileCodecProtocol):
    """Registered for the class exported by the package: ddsim.storesim.Obj2 (not for ddsim.storesim.values.Obj2)."""

    def ref(self):
        return ProtocolRef("user.pkgobj2")

    def handled_types(self):
        return [SupportedType("ddsim.storesim.Obj2")]

    def serialize_into(self, blob, loc):
        _note("user.pkgobj2", "ser", loc)
        with open(str(loc), "w") as f:
            json.dump({"n": blob.n}, f)

    def deserialize_from(self, loc):
        from ddsim.storesim import Obj2

        _note("user.pkgobj2", "de", loc)
        with open(str(loc)) as f:
            return Obj2(json.load(f)["n"])


class TagStr2Codec(CodecProtocol):
    """A non-file codec (location string) for str: registered through add_codec like ObjPickle2Codec."""

    def ref(self):
        return ProtocolRef("user.tagstr2")

    def handled_types(self):
        return [SupportedType("str")]

    def serialize_into(self, blob, loc):
        _note("user.tagstr2", "ser", loc)
        with open(str(loc), "wb") as f:
            f.write(b"T2:" + blob.encode("utf-8"))

    def deserialize_from(self, loc):
        _note("user.tagstr2", "de", loc)
        with open(str(loc), "rb") as f:
            return f.read()[3:].decode("utf-8")


class Bytes3Codec(CodecProtocol):
    def ref(self):
        return ProtocolRef("user.bytes3")

    def handled_types(self):
        return [SupportedType("bytes")]

    def serialize_into(self, blob, loc):
        _note("user.bytes3", "ser", loc)
        with open(str(loc), "wb") as f:
            f.write(b"B3" + bytes(blob))

    def deserialize_from(self, loc):
        _note("user.bytes3", "de", loc)
        with open(str(loc), "rb") as f:
            return f.read()[2:]


CODECS = {"tagstr2": (TagStr2Codec, "codec"), "bytes3": (Bytes3Codec, "codec"),
          "pkgobj2": (PkgObj2Codec, "file"),"tagstr": (TagStrCodec, "file"), "objjson": (ObjJsonCodec, "file"), "objpickle2": (ObjPickle2Codec, "codec"),
          "bytes2": (BytesUpperCodec, "file")}
