"""Engine K. (The class below exists to have one class NAME at two levels of a package, see C17.)"""


class Obj2(object):
    """Exported at package level; a codec is registered for `ddsim.storesim.Obj2`."""

    def __init__(self, n):
        self.n = n

    def __eq__(self, other):
        return type(other) is Obj2 and other.n == self.n

    def __hash__(self):
        return hash(("pkg", self.n))

    def __repr__(self):
        return f"PkgObj2({self.n!r})"
