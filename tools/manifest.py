#!/venv/bin/python
"""Generates MANIFEST.json from the table below (single source of truth for claimed checks)."""
import json
import os

ROOT = os.path.dirname(os.path.dirname(os.path.abspath(__file__)))
BASELINE = ("cd /repo && /venv/bin/python -m pytest -ra -q -p no:cacheprovider --timeout=900 "
            "--continue-on-collection-errors")

PIPE_NOTE = ("Trusts: the dds-free reference shim (keep = call, load = path table in program order), the generator staying "
             "inside the documented supported subset, canonical repr comparison. Real code: all of dds, CPython import/inspect, tmpfs.")

CHECKS = {
    "C01": dict(
        engine="P",
        category="exploration",
        text=("Seeded programs x seeded histories (evaluations, every edit kind, revert, restart = real loss of all "
              "in-memory state by killing the forked process, store switch, in-process mutation) on memory / local / "
              "local+cache / noop stores; every value returned by dds is compared with a dds-free run of the same files. "
              "Sampling of programs and histories; a clean batch is evidence, not proof."),
        note=PIPE_NOTE,
        technique="deterministic simulation: seeded edit/restart histories over forked processes, differential against a dds-free reference model",
        design_ref="DESIGN.md 4, 7 (C01)",
    ),
    "C02": dict(
        engine="P",
        category="exploration",
        text=("Same world as C01, histories biased to edits outside dependency cones, reverts, restarts and entry-style "
              "switches. A kept body may execute only if no node with the same cone fingerprint (computed from the "
              "generator's IR per DESIGN.md 4.1, independently of dds's hashing) was executed and stored before in that "
              "store. Cannot alarm on correct code because the cone is at least as fine as dds's signature inputs."),
        note=PIPE_NOTE + " Over-invalidation that stays inside a cone is by design not detected.",
        technique="deterministic simulation: seeded histories with an execution-log oracle against IR-level cone fingerprints",
        design_ref="DESIGN.md 4.1, 7 (C02)",
    ),
    "C03": dict(
        engine="P",
        category="exploration",
        text=("For each seeded program one canonical evaluation and 3-7 environment variants - separate interpreters under "
              "other PYTHONHASHSEED values, other cwd, tree copied / reached through a symlink, other store kinds, "
              "extra_debug, graph export, in-process prehistories with other evaluations, reverted mutations and a failed "
              "evaluation - must hand identical path->signature maps to the store; plus a committed corpus of 40 programs "
              "whose signatures are pinned byte-for-byte."),
        note=PIPE_NOTE + " One CPython version / platform. Corpus pinned after the fix: commits of known_findings.json.",
        technique="deterministic simulation: seeded environment/prehistory variants in forked and separately started interpreters, signature capture, pinned corpus",
        design_ref="DESIGN.md 7 (C03)",
    ),
    "C04": dict(
        engine="P",
        category="exploration",
        text=("C01's histories plus dds.load of paths seen so far (kept by the last evaluation, by an earlier one, or never) "
              "from the same and from a freshly forked process, and a direct read of <data_dir>/<path> on the local store; "
              "oracle = model path table maintained from the dds-free reference in program order."),
        note=PIPE_NOTE + " DBFS commits are covered by C19's machine.",
        technique="deterministic simulation: seeded histories with cross-process loads against a model path table",
        design_ref="DESIGN.md 4, 7 (C04)",
    ),
    "C08": dict(
        engine="K",
        category="exploration",
        text=("Seeded store-level operation histories (blobs, paths, re-open) on MemoryStore, LocalFileStore, the "
              "cache-wrapped local store and DBFSStore over a fake dbutils, compared step by step with a dictionary model; "
              "path alphabet with concatenation-ambiguous names, dots, spaces, unicode, '.'/'..' and doubled separators; "
              "containment of every created link inside the data directory."),
        note="Trusts: the dictionary model, the fake dbutils (fidelity to Databricks not checked), prefix-free path sets per run.",
        technique="deterministic simulation: seeded store-operation histories with re-open against an executable reference model",
        design_ref="DESIGN.md 6, 7 (C08)",
    ),
    "C09": dict(
        engine="P",
        category="exploration",
        text=("Programs with dds.load at seeded placements (evaluated function, nested helper, kept function) whose path is "
              "produced earlier / later in the same evaluation, by an earlier evaluation, or never; histories edit the "
              "producer. Values against the reference with a program-order path table, re-execution against cone "
              "fingerprints that include what the loaded path serves, and rejection (DDSException) of read-before-produce."),
        note=PIPE_NOTE,
        technique="deterministic simulation: seeded histories with load placements, reference path table and cone oracle",
        design_ref="DESIGN.md 4, 7 (C09)",
    ),
    "C06": dict(
        engine="F",
        category="fault_enumeration",
        text=("For each seeded workload (set-up history, optional edit, victim evaluation) every file-system operation "
              "boundary of the victim - including both halves of each write and the close - is a kill -9 point: the "
              "directory state left there is handed to fresh recovery processes which must load old-or-new complete values "
              "for previously committed paths, re-evaluate to the reference values (new and pre-edit code) and raise nothing. "
              "Complete over the crash points of each sampled workload; workloads are sampled by seed."),
        note=("Trusts: kill -9 model (completed syscalls durable, userspace buffers lost), the write proxy's two-half "
              "flush, equivalence 'killed at gate i == directory state at gate i' (cross-checked by literal SIGKILLs on a "
              "seeded sample and on every replay), the dds-free reference shim. Parquet I/O not intercepted."),
        technique="deterministic simulation: forked processes parked at every intercepted FS call, crash-point enumeration with kill -9 and recovery oracles",
        design_ref="DESIGN.md 5, 7 (C06)",
    ),
    "C07": dict(
        engine="F",
        category="exploration",
        text=("2-3 real forked processes run keep / load workloads against one local store; a seeded scheduler "
              "(uniform, sticky, PCT, bounded pre-emption) releases exactly one of them per file-system operation "
              "(writes split in halves), with stall / peer-kill / clock faults. Every returned value is checked against the "
              "dds-free reference (evaluations) or the set of values committed before or concurrently (loads, by global "
              "event sequence numbers), no process may raise, and a fresh process must see a correct final state. "
              "Schedules are sampled, not enumerated."),
        note=("Trusts: interleaving granularity = one intercepted FS call; the write proxy; the necessary-condition "
              "linearizability check for loads; workloads succeed in every serial order by construction."),
        technique="deterministic simulation: seeded scheduling of real processes parked at intercepted FS calls, history oracles",
        design_ref="DESIGN.md 5, 7 (C07)",
    ),
    "C10": dict(
        engine="P",
        category="exploration",
        text=("Histories in which the generated code's own fault point raises a seeded exception object (Exception and "
              "BaseException subclasses) at the entry or just before the return of a seeded function; exception identity, "
              "blobs only for kept functions that completed, no path commit, and equivalence of the rest of the history "
              "with the twin history that never saw the failure (values, signatures; logs a subset)."),
        note=PIPE_NOTE + " Fault = user-code exception only.",
        technique="deterministic simulation: seeded user-code fault injection inside edit/restart histories, twin-history differential",
        design_ref="DESIGN.md 4.8, 7 (C10)",
    ),
    "C11": dict(
        engine="P",
        category="exploration",
        text=("Valid histories with ill-formed entry points (prefix-overlapping kept paths in seeded order / separation / "
              "nesting; call cycles of length 1-4 through calls, keeps, higher-order references and methods; nested dds.eval) evaluated "
              "at seeded positions in the same process and store as the valid evaluations: error code, empty execution log, "
              "unchanged store snapshot, and twin-history equivalence afterwards. Placements are sampled, not enumerated."),
        note=PIPE_NOTE,
        technique="deterministic simulation: seeded placement of ill-formed evaluations in stateful histories, snapshot and twin-history oracles",
        design_ref="DESIGN.md 7 (C11)",
    ),
    "C15": dict(
        engine="P",
        category="exploration",
        text=("Histories with evaluations restricted by dds_stages (every prefix of the stage order, names in any case, enum "
              "members) on fresh and populated stores: no execution / blob / path per stage list, correct values when eval is "
              "included, and twin-history equivalence of everything that follows."),
        note=PIPE_NOTE,
        technique="deterministic simulation: seeded restricted-stage evaluations inside histories, snapshot and twin-history oracles",
        design_ref="DESIGN.md 4.8, 7 (C15)",
    ),
    "C14": dict(
        engine="P",
        category="exploration",
        text=("Programs placed in packages of depth 1-6 with the accepted prefix at a seeded depth, 0-40 decoy accepted "
              "packages and non-accepted look-alike packages; evaluate-edit-restart-evaluate histories with edits on both "
              "sides of the boundary: signatures unchanged by non-accepted edits, changed by edits inside the static content "
              "of the kept function, accepted code always evaluated, data functions of non-accepted modules refused naming the module."),
        note=PIPE_NOTE + " The must-change rule is a lower bound (static content of the kept function), so it cannot alarm on correct code.",
        technique="deterministic simulation: seeded package-shape configurations x edit/restart histories, signature capture through a wrapping Store",
        design_ref="DESIGN.md 7 (C14)",
    ),
    "C18": dict(
        engine="P",
        category="exploration",
        text=("Evaluations with dds_export_graph (real pydotplus + graphviz) inside histories, each history also run as its "
              "twin without export: results, logs and signatures identical; the dot text parsed back is compared with a "
              "reachability model built from the generator's IR (nodes, solid, dashed, dotted edges, acyclicity). The graph "
              "clause is a function of the program - programs are sampled; non-perturbation is the twin-history oracle."),
        note=PIPE_NOTE + " One edge per ordered pair is assumed (a direct dependency takes precedence over a dashed one).",
        technique="deterministic simulation: twin histories with and without graph export, IR reachability model of the exported graph",
        design_ref="DESIGN.md 7 (C18)",
    ),
    "C12": dict(
        engine="K",
        category="exploration",
        text=("Seeded lock-step histories on a bare store and the same store wrapped in the object cache (all "
              "capacities, memory and local inner stores, inner-store faults), every answer compared step by step, "
              "live fetched objects counted with weak references; plus the cache configured through dds.set_store. "
              "Sampling, not enumeration: a clean batch is evidence, not proof."),
        note=("Trusts: the FaultyStore wrapper and the weak-reference live count; keys map to one value per history "
              "(content addressing). Real code: LRUCacheStore, MemoryStore, LocalFileStore, codecs, tmpfs."),
        technique="deterministic simulation: seeded lock-step differential histories with inner-store fault injection",
        design_ref="DESIGN.md 6, 7 (C12)",
    ),
    "C16": dict(
        engine="K",
        category="exploration",
        text=("Seeded local-store configurations (absolute / relative / trailing separator / nested non-existing / symlinked "
              "parent directories, every cache_objects value) x histories of keep, load, chdir, restart in the same or another "
              "cwd, and switches between two data views on one internal directory, through the public API in forked "
              "processes; round trip, no recomputation across views, independent per-view path tables."),
        note="Trusts: a fresh process elsewhere is configured with the same physical directories; the execution log of the kept function.",
        technique="deterministic simulation: seeded configuration x process/cwd histories against per-view model tables",
        design_ref="DESIGN.md 6, 7 (C16)",
    ),
    "C17": dict(
        engine="K",
        category="exploration",
        text=("Seeded store / fetch histories over every result type (empty, non-ASCII and 1 MiB text, bytes, bytearray, "
              "None, picklable objects, containers, pandas frames, a type with user codecs) interleaved with registrations "
              "of further codecs for the same types and with restarts into fresh processes that register the same codecs "
              "in another order; value and type equality, codec that read == codec named in the metadata == codec that "
              "wrote (instrumented codecs), verbatim bytes for builtin text / bytes codecs, legacy pandas reference."),
        note="Trusts: instrumented user codecs; a fresh process registers the same codecs; verbatim claim limited to builtin codecs.",
        technique="deterministic simulation: seeded store histories with codec-registration and process-restart events against a value model",
        design_ref="DESIGN.md 6, 7 (C17)",
    ),
    "C19": dict(
        engine="K",
        category="exploration",
        text=("Seeded keep / load / re-keep / re-configuration histories through the public API on the DBFS store over an "
              "in-process fake of dbutils.fs for every documented commit-type spelling and value type, checking the files "
              "left under the data directory, returned values and loads; plus blobs pre-seeded with legacy codec references."),
        note="Trusts: the fake dbutils (subset cp/head/put/rm; fidelity to Databricks not checked). Spark codecs not exercised.",
        technique="deterministic simulation: seeded API histories against an in-process fake of the remote file system with a model of expected files",
        design_ref="DESIGN.md 6, 7 (C19)",
    ),
}

NOT_APPLICABLE = {
    "C05": ("pure function of its argument (value -> hash): no schedule, clock, fault, crash point or history to "
            "simulate; deciding it is input enumeration, not deterministic simulation (DESIGN.md 8)"),
    "C13": ("pure function of the call spelling (binding -> signature) quantified over all spellings and pairs; no "
            "state, schedule or fault; instances are exercised incidentally by C01/C02 histories (DESIGN.md 8)"),
}

ALL = [f"C{i:02d}" for i in range(1, 20)]


def main():
    checks = []
    for pid in ALL:
        if pid not in CHECKS:
            continue
        c = CHECKS[pid]
        checks.append({
            "property_id": pid,
            "quick_cmd": f"bin/check {pid} --tier quick",
            "thorough_cmd": f"bin/check {pid} --tier thorough",
            "evidence_file": f"/verif/evidence/{pid}.json",
            "replay_cmd_template": f"bin/check {pid} --replay {{path}}",
            "engine": c["engine"],
            "level_claimed": {"category": c["category"], "text": c["text"], "design_ref": c["design_ref"]},
            "level_note": c["note"],
            "technique": c["technique"],
        })
    na = []
    for pid in ALL:
        if pid in CHECKS:
            continue
        reason = NOT_APPLICABLE.get(pid, "check not built yet (work in progress in this round); not claimed")
        na.append({"property_id": pid, "reason": reason})
    doc = {
        "version": 1,
        "setup_cmd": "/venv/bin/python -B -c \"import sys; sys.path.insert(0,'/repo'); import dds, IPython, pydotplus; print('ok')\"",
        "hooks": {
            "guard": "DDS_PY_VERIF",
            "enable": ("no source hook exists: every seam is a monkeypatch installed inside simulated processes by code "
                       "under /verif (DESIGN.md 2); DDS_PY_VERIF is reserved and read by nothing in /repo"),
            "baseline_off_cmd": BASELINE,
            "source_commits": [],
            "add_only": True,
        },
        "engines": [
            {"name": "P", "path": "ddsim/pipe", "serves_properties": ["C01", "C02", "C03", "C04", "C09", "C10", "C11", "C14", "C15", "C18"],
             "kind_free_text": "pipeline world: seeded histories of edits / evaluations / restarts over generated programs, forked simulated processes, dds-free reference run"},
            {"name": "F", "path": "ddsim/procsim", "serves_properties": ["C06", "C07"],
             "kind_free_text": "process + file-system simulator: forked processes parked at every intercepted FS call, seeded scheduler, kill -9 / torn-write / stall / clock faults"},
            {"name": "K", "path": "ddsim/storesim", "serves_properties": ["C08", "C12", "C16", "C17", "C19"],
             "kind_free_text": "store-level machine against a dictionary model, fake dbutils, faulty inner store"},
        ],
        "checks": checks,
        "not_applicable": na,
        "notes": ("All checks honour VERIF_SEED, VERIF_TIER, VERIF_BUDGET_S, VERIF_WORKERS, VERIF_RUNS. Exit 2 = harness "
                  "error (never accompanied by a VIOLATION line). Known findings: known_findings.json."),
    }
    with open(os.path.join(ROOT, "MANIFEST.json"), "w") as f:
        json.dump(doc, f, indent=1)
        f.write("\n")


if __name__ == "__main__":
    main()
