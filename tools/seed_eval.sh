#!/bin/bash
# Usage: tools/seed_eval.sh <ID> <worktree> <prop> [<prop> ...]
# 1. confirms in the scratch worktree: tests pass with the change, demo fails with it and passes without it
# 2. applies the patch to /repo, runs the given quick checks, reverts /repo
set -u
ID=$1; WT=$2; shift 2
cd "$WT" || exit 9
git diff -- dds > patch.diff
echo "== [$ID] confirm in $WT"
T=$(timeout 900 /venv/bin/python -m pytest -q -p no:cacheprovider --timeout=900 --deselect dds_tests/test_sklearn.py::test_sklearn 2>&1 | tail -1)
echo "tests with change: $T"
timeout 600 /venv/bin/python demo.py > /tmp/demo_with.log 2>&1; W=$?
git apply -R patch.diff
timeout 600 /venv/bin/python demo.py > /tmp/demo_without.log 2>&1; WO=$?
git apply patch.diff
echo "demo exit with change: $W   without: $WO"
cd /verif
if ! git -C /repo apply --check "$WT/patch.diff" 2>/dev/null; then echo "patch does not apply to /repo"; exit 8; fi
git -C /repo apply "$WT/patch.diff"
for P in "$@"; do
  OUT=$(timeout 1200 bin/check $P --tier quick --no-evidence 2>&1)
  RC=$?
  echo "-- check $P exit=$RC"
  echo "$OUT" | grep -E "^(VIOLATION|  oracle=|  detail=|HARNESS|DONE)" | cut -c1-400 | head -8
done
git -C /repo checkout -- .
git -C /repo status --short | head -3
