#!/bin/bash
# Usage: tools/seed_eval_wt.sh <ID> <worktree> <prop> [<prop> ...]
# Like seed_eval.sh, but the checks run against the scratch worktree itself (DDS_VERIF_REPO), /repo is not touched.
# Only valid when the worktree is at /repo's current HEAD plus the seeded change.
set -u
ID=$1; WT=$2; shift 2
cd "$WT" || exit 9
if [ "$(git rev-parse HEAD)" != "$(git -C /repo rev-parse HEAD)" ]; then echo "worktree is not at /repo HEAD"; exit 8; fi
git diff -- dds > patch.diff
echo "== [$ID] confirm in $WT"
T=$(timeout 900 /venv/bin/python -m pytest -q -p no:cacheprovider --timeout=900 --deselect dds_tests/test_sklearn.py::test_sklearn 2>&1 | tail -1)
echo "tests with change: $T"
timeout 600 /venv/bin/python demo.py > /tmp/demo_with_$ID.log 2>&1; W=$?
git apply -R patch.diff
timeout 600 /venv/bin/python demo.py > /tmp/demo_without_$ID.log 2>&1; WO=$?
git apply patch.diff
echo "demo exit with change: $W   without: $WO"
cd /verif
for P in "$@"; do
  OUT=$(DDS_VERIF_REPO=$WT timeout 1200 bin/check $P --tier quick --no-evidence 2>&1)
  RC=$?
  echo "-- check $P exit=$RC"
  echo "$OUT" | grep -E "^(VIOLATION|  oracle=|  detail=|HARNESS|DONE)" | cut -c1-400 | head -8
done
