#!/bin/bash
# Applies every seeded change of /verif/seeded to /repo in turn, runs the quick check of the property it breaks
# (and of the other checks listed in meta.json caught_by) and reverts. Prints one line per (change, check).
cd /verif
for d in seeded/*/; do
  id=$(basename $d)
  checks=$(python3 -c "import json;print(' '.join(json.load(open('$d/meta.json'))['caught_by']))")
  if ! git -C /repo apply --check /verif/$d/patch.diff 2>/dev/null; then echo "$id patch does not apply"; continue; fi
  git -C /repo apply /verif/$d/patch.diff
  for c in $checks; do
    out=$(timeout 1500 bin/check $c --tier quick --no-evidence 2>&1); rc=$?
    n=$(echo "$out" | grep -c "^VIOLATION")
    echo "$id check=$c exit=$rc violations_reported=$n"
  done
  git -C /repo checkout -- .
done
git -C /repo status --short | head -3
