#!/venv/bin/python
"""Pins signatures of a corpus of generated programs on the CURRENT tree (run after a fix: commit that is meant to
change signatures; record the reason in DESIGN.md). Usage: tools/make_corpus.py [n]"""
import json
import os
import subprocess
import sys

os.environ.setdefault("PYTHONHASHSEED", "0")
ROOT = os.path.dirname(os.path.dirname(os.path.abspath(__file__)))
sys.dont_write_bytecode = True
sys.path.insert(0, ROOT)
sys.path.insert(0, "/repo")
from ddsim.core.util import Streams, fork_call, new_scratch, rmtree, run_seed  # noqa
from ddsim.pipe import gen, ir  # noqa
from ddsim.pipe.proc import SimProcess  # noqa
from ddsim.pipe.ref import write_tree  # noqa
from ddsim.props import c03  # noqa


def one(i):
    st = Streams(run_seed(424242, "C03-corpus", i))
    case = c03.gen_case(st, "quick", ())
    prog, entry = case["prog"], case["entry"]
    root = new_scratch(f"corpus{i}")
    try:
        files = ir.render(prog)
        src = os.path.join(root, "src")
        write_tree(src, files)
        f = prog["funcs"][entry]
        doc = {"files": files, "accept": ir.accepted_names(prog), "modules": [ir.modname(prog, m) for m in prog["mods"]],
               "entry": ir.modname(prog, f["mod"]) + ":" + entry}
        p = SimProcess()
        try:
            p.call({"cmd": "init", "srcdir": src, "accept": doc["accept"], "modules": doc["modules"],
                    "store": {"kind": "local", "internal": os.path.join(root, "int"), "data": os.path.join(root, "data")}})
            out = p.call({"cmd": "eval", "entry": doc["entry"], "style": "eval", "options": {}})
        finally:
            p.kill()
        if out["res"][0] != "ok":
            return None
        doc["expected"] = c03._sigs_of(out)
        return doc
    finally:
        rmtree(root)


def main():
    n = int(sys.argv[1]) if len(sys.argv) > 1 else 40
    commit = subprocess.check_output(["git", "-C", "/repo", "log", "--format=%h", "-1"]).decode().strip()
    d = os.path.join(ROOT, "corpus")
    os.makedirs(d, exist_ok=True)
    k = 0
    i = 0
    while k < n:
        doc = fork_call(one, (i,), timeout=120)
        i += 1
        if doc is None or not doc["expected"]:
            continue
        doc["pinned_at_repo_commit"] = commit
        with open(os.path.join(d, f"c03_{k:03d}.json"), "w") as f:
            json.dump(doc, f, indent=1, sort_keys=True)
        k += 1
    print("pinned", k, "programs at", commit)


if __name__ == "__main__":
    main()
