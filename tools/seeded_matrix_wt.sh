#!/bin/bash
# Like seeded_matrix.sh, but every seeded change is applied in its own scratch worktree of /repo (at /repo's HEAD) and the
# checks run against that worktree through DDS_VERIF_REPO: /repo itself is not touched. Usage: tools/seeded_matrix_wt.sh [PAR]
PAR=${1:-2}
cd /verif
one() {
  id=$1
  d=/verif/seeded/$id
  wt=/tmp/mx_$id
  git -C /repo worktree add -q --detach $wt HEAD || { echo "$id worktree failed"; return; }
  if ! git -C $wt apply $d/patch.diff 2>/dev/null; then echo "$id patch does not apply"; git -C /repo worktree remove --force $wt; return; fi
  checks=$(python3 -c "import json;print(' '.join(json.load(open('$d/meta.json'))['caught_by']))")
  for c in $checks; do
    out=$(DDS_VERIF_REPO=$wt timeout 1500 bin/check $c --tier quick --no-evidence 2>&1); rc=$?
    n=$(echo "$out" | grep -c "^VIOLATION")
    echo "$id check=$c exit=$rc violations_reported=$n"
  done
  git -C /repo worktree remove --force $wt
}
export -f one
ls seeded | xargs -P $PAR -I{} bash -c 'one {}'
