#!/venv/bin/python
"""tools/seed_archive.py <ID> <worktree> <property> <caught_by csv> <missed_by csv> "<needs>" """
import json
import os
import shutil
import sys

sid, wt, prop, caught, missed, needs = sys.argv[1:7]
d = os.path.join("/verif/seeded", sid)
os.makedirs(d, exist_ok=True)
for n in ("patch.diff", "demo.py", "NOTE.md"):
    shutil.copy(os.path.join(wt, n), os.path.join(d, n))
meta = {
    "id": sid,
    "breaks_property": prop,
    "needs_to_manifest": needs,
    "author": "independent sub-agent given only the property text and a scratch worktree",
    "confirmed": {
        "tests_with_change": "59 passed (dds_tests, test_sklearn deselected: needs network)",
        "demo_exit_with_change": 1,
        "demo_exit_without_change": 0,
        "how": "tools/seed_eval.sh in the scratch worktree (git stash for the unmodified run), then patch applied to /repo, quick checks run, /repo reverted",
    },
    "caught_by": [c for c in caught.split(",") if c],
    "missed_by_first_version_of": [c for c in missed.split(",") if c],
}
json.dump(meta, open(os.path.join(d, "meta.json"), "w"), indent=1)
print("archived", d)
